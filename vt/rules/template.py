"""Template-level rules: P1 (C03), G1-G5 (C11), X1 (C13), Y1-Y3 (C18)."""
from __future__ import annotations

import ast
import builtins
import itertools
from typing import Any, Dict, Iterator, List, Optional, Set, Tuple

from jinja2 import nodes as jn

from ..absint import Interp
from ..classtable import ClassTable, builtin_has, type_candidates
from ..jinja_model import Config, Specialiser, TemplateModel, TypingShapes, jtext, parse_residual
from ..refsrc import Reference
from ..src import (AnalysisError, M_CLIENT, M_LIB_STD, M_LIB_STD_COMPILER, M_MODELS, M_SERVER, M_TYPING, T_BODY, T_HEADER)
from ..sym import A, C, N, dotted, show, walk as _walk

_cache: Dict[int, Any] = {}


def tmodel(ctx) -> TemplateModel:
    k = ("tm", id(ctx.repo))
    if k not in _cache:
        _cache[k] = TemplateModel(ctx.repo)
        # forwarding properties of the plugin model, by the name the template gives the object
        from ..jinja_model import PROPERTY_CHAINS
        PROPERTY_CHAINS.clear()
        mod = ctx.repo.mod(M_MODELS)
        for var, cls_ in (("method", "ServiceMethodCompiler"), ("message", "MessageCompiler"), ("field", "FieldCompiler"), ("service", "ServiceCompiler"), ("enum", "EnumDefinitionCompiler")):
            for mname, fns in mod.methods(cls_).items():
                f_ = fns[0]
                if not any("property" in ast.unparse(d) for d in f_.decorator_list):
                    continue
                rets_ = [r.value for r in ast.walk(f_) if isinstance(r, ast.Return) and r.value is not None]
                if len(rets_) == 1 and isinstance(rets_[0], ast.Attribute) and ast.unparse(rets_[0]).startswith("self."):
                    PROPERTY_CHAINS[(var, mname)] = ast.unparse(rets_[0])[5:]
    return _cache[k]


def tc_only_imports(ctx) -> List[str]:
    """the literal import lines registered by ServiceMethodCompiler for the TYPE_CHECKING block"""
    mod = ctx.repo.mod(M_MODELS)
    out = []
    for n in ast.walk(mod.tree):
        if isinstance(n, ast.Call) and isinstance(n.func, ast.Attribute) and n.func.attr == "add" and "imports_type_checking_only" in ast.unparse(n.func.value) \
                and n.args and isinstance(n.args[0], ast.Constant):
            out.append(n.args[0].value)
        if isinstance(n, ast.Call) and isinstance(n.func, ast.Attribute) and n.func.attr == "update" and "imports_type_checking_only" in ast.unparse(n.func.value) and len(n.args) == 1:
            a = n.args[0]
            vals = mod.consts.get(a.id) if isinstance(a, ast.Name) else None
            if vals is None and isinstance(a, (ast.Tuple, ast.List, ast.Set)) and all(isinstance(e, ast.Constant) for e in a.elts):
                vals = [e.value for e in a.elts]
            if isinstance(vals, (tuple, list, set, frozenset)) and all(isinstance(v, str) for v in vals):
                out.extend(vals)
    return sorted(out)


BASE_FLAGS = {
    "entry.comment": False, "enum.comment": False, "field.comment": False, "message.comment": False, "message.deprecated": False,
    "message.fields": True, "message.has_deprecated_fields": False, "message.has_oneof_fields": False, "method.client_streaming": False,
    "method.comment": False, "method.proto_obj.options.deprecated": False, "method.server_streaming": False, "output_file.enums": True,
    "output_file.pydantic_dataclasses": False, "service.comment": False, "service.methods": True,
    "output_file.datetime_imports": True, "output_file.imports_type_checking_only": True, "output_file.pydantic_imports": False,
    "output_file.services": True,
}
VARIANTS = {
    "plain": {},
    "comments": {"entry.comment": True, "enum.comment": True, "field.comment": True, "message.comment": True, "method.comment": True, "service.comment": True},
    "deprecated": {"message.deprecated": True, "message.has_deprecated_fields": True, "method.proto_obj.options.deprecated": True, "$deprecated-anything": True},
    "oneof": {"message.has_oneof_fields": True},
    "empty-message": {"message.fields": False},
    "empty-service": {"service.methods": False},
    "empty-service+comment": {"service.methods": False, "service.comment": True},
    "no-services": {"output_file.services": False, "output_file.imports_type_checking_only": False},
    "no-enums": {"output_file.enums": False},
}


def configs(variants: Optional[List[str]] = None, compilers=("direct", "root", "310"), pydantic=(False, True), streaming=None) -> Iterator[Config]:
    streaming = streaming or [(False, False), (False, True), (True, False), (True, True)]
    for comp in compilers:
        for pyd in pydantic:
            for cs, ss in streaming:
                for vname in (variants or list(VARIANTS)):
                    fl = dict(BASE_FLAGS)
                    fl.update(VARIANTS[vname])
                    fl["output_file.pydantic_dataclasses"] = pyd
                    fl["output_file.pydantic_imports"] = pyd and fl["message.has_oneof_fields"]
                    fl["method.client_streaming"] = cs
                    fl["method.server_streaming"] = ss
                    counts = {}
                    if not fl["service.methods"]:
                        counts["service.methods"] = 0
                    if not fl["message.fields"]:
                        counts["message.fields"] = 0
                        counts["message.deprecated_fields"] = 0
                    if not fl["output_file.services"]:
                        counts["output_file.services"] = 0
                    if not fl["output_file.enums"]:
                        counts["output_file.enums"] = 0
                    if not fl["message.has_deprecated_fields"]:
                        counts["message.deprecated_fields"] = 0
                    yield Config(comp, fl, counts, f"typing.{comp}/{'pydantic' if pyd else 'std'}/cs={int(cs)},ss={int(ss)}/{vname}")


def residual(ctx, cfg: Config) -> Tuple[str, Specialiser]:
    tm = tmodel(ctx)
    k = ("shapes", id(ctx.repo))
    if k not in _cache:
        _cache[k] = TypingShapes(ctx.repo)
    sp = Specialiser(tm, _cache[k], cfg, tc_only_imports(ctx))
    body = sp.render(tm.body)          # the body first: typing imports are collected while it renders
    header = sp.render(tm.header)
    return header + body, sp


# ---------------------------------------------------------------------------
# Y1 residual parses for every configuration


def rule_Y1(ctx, full: bool = False) -> None:
    variants = list(VARIANTS) if full else ["plain", "comments", "deprecated", "oneof", "empty-message", "empty-service", "empty-service+comment", "no-services"]
    groups: Dict[str, List[str]] = {}
    n = 0
    bad_detail: Dict[str, str] = {}
    for cfg in configs(variants):
        text, sp = residual(ctx, cfg)
        n += 1
        tree, err = parse_residual(text)
        key = f"typing.{cfg.compiler}/{'streaming' if (cfg.flags['method.client_streaming'] or cfg.flags['method.server_streaming']) and cfg.flags['service.methods'] and cfg.flags['output_file.services'] else 'other'}"
        if err is not None:
            groups.setdefault(key, []).append(cfg.name)
            line = text.splitlines()[err.lineno - 1] if err.lineno and err.lineno <= len(text.splitlines()) else ""
            bad_detail.setdefault(key, f"{cfg.name}: SyntaxError {err.msg} at generated line {err.lineno}: {line.strip()[:120]}")
        else:
            groups.setdefault(key, [])
    ctx.count(n)
    ctx.floor("Y1", "configurations", n, 150)
    for key, bads in sorted(groups.items()):
        if bads:
            ctx.refuted("Y1", f"residual-parses[{key}]", f"{len(bads)}-configs", T_BODY,
                        f"{len(bads)} configurations generate code that is not valid Python; e.g. {bad_detail[key]}",
                        "run the plugin with this option combination on a service with a streaming method")
        else:
            ctx.proved("Y1", f"residual-parses[{key}]", T_BODY)


# ---------------------------------------------------------------------------
# Y2 free names: what is evaluated at import time is bound at that point


def _import_time_names(node: ast.AST) -> List[ast.Name]:
    """Name loads evaluated when the statement executes at module import (not function bodies, not string annotations)"""
    out: List[ast.Name] = []

    def expr(e: Optional[ast.AST]) -> None:
        if e is None:
            return
        for n in ast.walk(e):
            if isinstance(n, ast.Name) and isinstance(n.ctx, ast.Load):
                out.append(n)

    if isinstance(node, (ast.FunctionDef, ast.AsyncFunctionDef)):
        for d in node.decorator_list:
            expr(d)
        a = node.args
        for arg in a.posonlyargs + a.args + a.kwonlyargs + ([a.vararg] if a.vararg else []) + ([a.kwarg] if a.kwarg else []):
            expr(arg.annotation)
        for d in a.defaults + [x for x in a.kw_defaults if x is not None]:
            expr(d)
        expr(node.returns)
    elif isinstance(node, ast.ClassDef):
        for d in node.decorator_list:
            expr(d)
        for b in node.bases:
            expr(b)
        for k in node.keywords:
            expr(k.value)
        for st in node.body:
            out.extend(_import_time_names(st))
    elif isinstance(node, ast.AnnAssign):
        expr(node.annotation)
        expr(node.value)
    elif isinstance(node, (ast.Import, ast.ImportFrom)):
        pass
    elif isinstance(node, ast.If):
        expr(node.test)
        if ast.unparse(node.test) == "TYPE_CHECKING":
            return out
        for st in node.body + node.orelse:
            out.extend(_import_time_names(st))
    else:
        expr(node)
    return out


def _bound_by(st: ast.stmt) -> Set[str]:
    out: Set[str] = set()
    if isinstance(st, ast.Import):
        for a in st.names:
            out.add((a.asname or a.name).split(".")[0])
    elif isinstance(st, ast.ImportFrom):
        for a in st.names:
            out.add(a.asname or a.name)
    elif isinstance(st, (ast.ClassDef, ast.FunctionDef, ast.AsyncFunctionDef)):
        out.add(st.name)
    elif isinstance(st, ast.Assign):
        for t in st.targets:
            for n in ast.walk(t):
                if isinstance(n, ast.Name):
                    out.add(n.id)
    elif isinstance(st, ast.AnnAssign) and isinstance(st.target, ast.Name):
        out.add(st.target.id)
    elif isinstance(st, ast.If) and ast.unparse(st.test) != "TYPE_CHECKING":
        for b in st.body:
            out |= _bound_by(b)
    return out


def rule_Y2(ctx) -> None:
    bi = set(dir(builtins))
    issues: Dict[str, Tuple[str, str]] = {}
    n = 0
    for cfg in configs(["plain", "oneof", "deprecated"], compilers=("direct", "root")):
        text, sp = residual(ctx, cfg)
        tree, err = parse_residual(text)
        if tree is None:
            continue  # judged by Y1
        n += 1
        bound: Set[str] = set()
        lines = text.splitlines()
        for st in tree.body:
            for nm in _import_time_names(st):
                if nm.id not in bound and nm.id not in bi:
                    # class-body names bound earlier inside the same class
                    if isinstance(st, ast.ClassDef) and nm.id in {x for b in st.body for x in _bound_by(b)}:
                        continue
                    src = lines[nm.lineno - 1].strip() if nm.lineno <= len(lines) else ""
                    kind = "cross-package alias (imports_end)" if nm.id == "xpkg__" else "name"
                    key = f"{nm.id}@{_enclosing_def(tree, nm)}"
                    issues.setdefault(key, (cfg.name, f"`{nm.id}` ({kind}) is evaluated at import time in `{src[:110]}` but is only bound later (or never) in the generated module"))
            bound |= _bound_by(st)
    ctx.count(n)
    ctx.floor("Y2", "parsed configurations", n, 12)
    if issues:
        for key, (cname, detail) in sorted(issues.items()):
            ctx.refuted("Y2", f"import-time-names-bound[{key}]", "unbound", T_BODY, f"[{cname}] {detail}",
                        "generate a service whose streaming method uses a message type from another package; import the package")
    else:
        ctx.proved("Y2", "import-time-names-bound", T_BODY, f"{n} configurations")


def _enclosing_def(tree: ast.Module, target: ast.AST) -> str:
    for st in tree.body:
        if isinstance(st, ast.ClassDef):
            for b in st.body:
                if any(x is target for x in ast.walk(b)):
                    nm = getattr(b, "name", type(b).__name__)
                    cls = "Stub" if st.name.endswith("Stub") else "Base" if st.name.endswith("Base") else st.name
                    return f"{cls}.{nm}"
        if any(x is target for x in ast.walk(st)):
            return getattr(st, "name", type(st).__name__)
    return "?"


# ---------------------------------------------------------------------------
# G1-G5 stub <-> base agreement on the residual module


HELPER_FOR = {(False, False): "_unary_unary", (False, True): "_unary_stream", (True, False): "_stream_unary", (True, True): "_stream_stream"}


def _helper_cardinalities(ctx) -> Dict[str, str]:
    mod = ctx.repo.mod(M_CLIENT)
    out = {}
    for h in HELPER_FOR.values():
        fn = mod.func(f"ServiceStub.{h}")
        cards = set()
        for n in ast.walk(fn):
            if isinstance(n, ast.Attribute) and isinstance(n.value, ast.Attribute) and n.value.attr == "Cardinality":
                cards.add(n.attr)
        out[h] = ",".join(sorted(cards))
    return out


def _stub_parts(tree: ast.Module):
    stub = next((c for c in tree.body if isinstance(c, ast.ClassDef) and c.name.endswith("Stub")), None)
    base = next((c for c in tree.body if isinstance(c, ast.ClassDef) and c.name.endswith("Base")), None)
    return stub, base


def rule_G(ctx) -> None:
    ref = Reference()
    card, origin = ref.cardinality()
    ctx.oracle(origin)
    hfields, origin2 = ref.handler_fields()
    ctx.oracle(origin2)
    helper_card = _helper_cardinalities(ctx)
    client = ctx.repo.mod(M_CLIENT)
    ctx.analysed("ServiceStub._unary_unary", "ServiceStub._unary_stream", "ServiceStub._stream_unary", "ServiceStub._stream_stream")
    for (cs, ss), helper in HELPER_FOR.items():
        cfg = next(configs(["plain"], compilers=("direct",), pydantic=(False,), streaming=[(cs, ss)]))
        text, sp = residual(ctx, cfg)
        tree, err = parse_residual(text)
        tag = f"cs={int(cs)},ss={int(ss)}"
        if tree is None:
            ctx.inconclusive("G1", f"residual[{tag}]", f"residual module does not parse: {err}", T_BODY)
            continue
        ctx.count(1)
        stub, base = _stub_parts(tree)
        if stub is None or base is None:
            raise AnalysisError("residual module lacks the Stub / Base classes")
        sm = next((f for f in stub.body if isinstance(f, ast.AsyncFunctionDef) and f.name == "method0"), None)
        if sm is None:
            raise AnalysisError("Stub method not found in the residual module")
        calls = [c for c in ast.walk(sm) if isinstance(c, ast.Call) and isinstance(c.func, ast.Attribute) and isinstance(c.func.value, ast.Name)
                 and c.func.value.id == "self" and c.func.attr.startswith("_")]
        want_pair = (cs, ss)
        # G1: helper chosen by the stub, its Cardinality, the Cardinality in __mapping__
        if len(calls) != 1:
            ctx.refuted("G1", f"stub-helper[{tag}]", f"{len(calls)}-calls", T_BODY, f"the Stub method body calls {len(calls)} helpers")
            continue
        call = calls[0]
        h = call.func.attr
        hc = helper_card.get(h, "")
        if h != helper:
            ctx.refuted("G1", f"stub-helper[{tag}]", h, T_BODY, f"for client_streaming={cs}, server_streaming={ss} the Stub calls {h}; expected {helper}", "call the RPC through the generated stub")
        elif card.get(hc) != want_pair:
            ctx.refuted("G1", f"stub-helper[{tag}]", f"{h}:{hc}", client.loc(client.func(f"ServiceStub.{h}")),
                        f"{h} opens the stream with Cardinality.{hc} = {card.get(hc)}; the RPC is {want_pair}")
        else:
            ctx.proved("G1", f"stub-helper[{tag}]", T_BODY, f"{h} / {hc}")
        mp = next((f for f in base.body if isinstance(f, ast.FunctionDef) and f.name == "__mapping__"), None)
        if mp is None:
            raise AnalysisError("__mapping__ not found in the residual module")
        d = next((n for n in ast.walk(mp) if isinstance(n, ast.Dict)), None)
        if d is None or len(d.keys) != 1 or not isinstance(d.values[0], ast.Call):
            ctx.inconclusive("G1", f"mapping[{tag}]", "mapping dict not in the recognised form", T_BODY)
            continue
        # G10: the handlers are bound methods of the object __mapping__ is called on, so the table has to be built for that
        # object: returned as it is, or through a helper that hands back what it built on that call (never a table kept per class)
        rets_mp = [r.value for r in ast.walk(mp) if isinstance(r, ast.Return) and r.value is not None]
        if len(rets_mp) == 1 and rets_mp[0] is d:
            ctx.proved("G10", f"mapping-built-per-object[{tag}]", T_BODY, "dict display returned directly")
        elif len(rets_mp) == 1 and isinstance(rets_mp[0], ast.Call) and isinstance(rets_mp[0].func, ast.Attribute) and isinstance(rets_mp[0].func.value, ast.Name) \
                and rets_mp[0].func.value.id == "self":
            hname = rets_mp[0].func.attr
            srv_ = ctx.repo.mod(M_SERVER)
            q_ = f"ServiceBase.{hname}"
            lazily = any(isinstance(a, ast.Lambda) and a.body is d for a in rets_mp[0].args)
            if not srv_.has(q_):
                ctx.inconclusive("G10", f"mapping-built-per-object[{tag}]", f"__mapping__ returns self.{hname}(...), which ServiceBase does not define", T_BODY)
            else:
                hf = srv_.func(q_)
                params_ = [a.arg for a in hf.args.args[1:]]
                from ..absint import Interp as _I
                from ..sym import N as _N, show as _show
                hpaths = _I(srv_).run(hf)
                ctx.count(len(hpaths))
                leak = None
                for hp in hpaths:
                    if hp.outcome != "return" or hp.value is None:
                        continue
                    v_ = hp.value
                    built_here = (v_[0] == "call" and v_[1][0] == "n" and v_[1][1] in params_ and any(e.kind == "call" and e.data == v_ for e in hp.events)) or (v_[0] == "n" and v_[1] in params_)
                    stored = [e for e in hp.events if e.kind == "store" and e.data[1] == v_ and e.data[0][0] in ("sub", "a")]
                    if not built_here:
                        leak = leak or f"returns {_show(v_)}"
                    elif stored:
                        leak = leak or f"keeps what it built in {_show(stored[0].data[0])}"
                if leak:
                    ctx.refuted("G10", f"mapping-built-per-object[{tag}]", f"{hname}:{leak}"[:100], srv_.loc(hf),
                                f"__mapping__ hands the construction of its route table to ServiceBase.{hname}, which {leak}: the Handler entries hold bound methods of the object that built "
                                "the table first, so a second object of the same service class is served by the first object's handlers", "two objects of one <Service>Base subclass served in one process")
                else:
                    ctx.proved("G10", f"mapping-built-per-object[{tag}]", srv_.loc(hf), f"through ServiceBase.{hname}, which returns what it built on that call" + (" (lazily)" if lazily else ""))
        else:
            ctx.inconclusive("G10", f"mapping-built-per-object[{tag}]", "the value __mapping__ returns is not the table it builds", T_BODY)
        hcall = d.values[0]
        hargs = hcall.args
        mcard = hargs[1].attr if len(hargs) > 1 and isinstance(hargs[1], ast.Attribute) else "?"
        if card.get(mcard) == want_pair:
            ctx.proved("G1", f"mapping-cardinality[{tag}]", T_BODY, mcard)
        else:
            ctx.refuted("G1", f"mapping-cardinality[{tag}]", mcard, T_BODY, f"__mapping__ registers Cardinality.{mcard} = {card.get(mcard)} for an RPC that is {want_pair}",
                        "serve the generated Base and call the RPC")
        # G2: route / handler / method name agreement
        route_stub = call.args[0].value if call.args and isinstance(call.args[0], ast.Constant) else None
        route_map = d.keys[0].value if isinstance(d.keys[0], ast.Constant) else None
        handler = ast.unparse(hargs[0]) if hargs else ""
        rpc = next((f for f in base.body if isinstance(f, ast.AsyncFunctionDef) and f.name.startswith("__rpc_")), None)
        decl = [f.name for f in base.body if isinstance(f, ast.AsyncFunctionDef) and not f.name.startswith("__rpc_")]
        rpc_calls = {c.func.attr for c in ast.walk(rpc) if isinstance(c, ast.Call) and isinstance(c.func, ast.Attribute) and isinstance(c.func.value, ast.Name)
                     and c.func.value.id == "self"} | {a.attr for c in ast.walk(rpc) if isinstance(c, ast.Call) for a in c.args
                                                       if isinstance(a, ast.Attribute) and isinstance(a.value, ast.Name) and a.value.id == "self"} if rpc else set()
        ok = route_stub == route_map and route_stub is not None and rpc is not None and handler == f"self.{rpc.name}" and sm.name in rpc_calls and sm.name in decl
        if ok:
            ctx.proved("G2", f"route/handler/name[{tag}]", T_BODY, str(route_stub))
        else:
            ctx.refuted("G2", f"route/handler/name[{tag}]", f"stub={route_stub};map={route_map};handler={handler}", T_BODY,
                        f"Stub route {route_stub!r}, __mapping__ key {route_map!r}, handler {handler}, adapter calls {sorted(rpc_calls)}, Base declares {decl}: these must denote one RPC")
        # G3: type arguments
        in_hole, out_hole = "xpkg__.HIn0", "xpkg__.HOut0"
        margs = [ast.unparse(a) for a in hargs]
        if len(margs) == len(hfields) and margs[2] == in_hole and margs[3] == out_hole:
            ctx.proved("G3", f"mapping-types[{tag}]", T_BODY)
        else:
            ctx.refuted("G3", f"mapping-types[{tag}]", ",".join(margs[2:]), T_BODY, f"Handler{tuple(hfields)} is built with {margs}: request/reply types are not (input, output)",
                        "call an RPC whose request and response types differ")
        hfn = client.func(f"ServiceStub.{h}") if client.has(f"ServiceStub.{h}") else None
        if hfn is not None:
            params = [a.arg for a in hfn.args.args[1:]]
            kwonly = [a.arg for a in hfn.args.kwonlyargs]
            sargs = [ast.unparse(a) for a in call.args]
            want = {"route": repr(route_stub), "request": "in_msg0", "request_iterator": "in_msg0_iterator", "request_type": in_hole, "response_type": out_hole}
            exp = [want.get(p, "?") for p in params]
            kws = {k.arg: ast.unparse(k.value) for k in call.keywords}
            kw_ok = set(kws) <= set(kwonly) and all(kws.get(k) == k for k in ("timeout", "deadline", "metadata"))
            if sargs == exp and kw_ok:
                ctx.proved("G3", f"stub-args[{tag}]", T_BODY)
            else:
                ctx.refuted("G3", f"stub-args[{tag}]", ",".join(sargs), T_BODY, f"the Stub passes {sargs} {kws} to {h}{tuple(params)}; expected {exp} and timeout/deadline/metadata by name")
            # the stub method's own parameter must be the one forwarded
            own = [a.arg for a in sm.args.args[1:]]
            if own != [exp[1]]:
                ctx.refuted("G3", f"stub-signature[{tag}]", ",".join(own), T_BODY, f"Stub method parameters {own}, forwarded {exp[1]}")
        # G4: adapter shape and default bodies
        if rpc is not None:
            rsrc = ast.unparse(rpc)
            req_ok = ("await stream.recv_message()" in rsrc) != cs and ("stream.__aiter__()" in rsrc) == cs
            rep_ok = ("_call_rpc_handler_server_stream" in rsrc) == ss and ("stream.send_message(response)" in rsrc) != ss
            if not rep_ok and not ss and "_call_rpc_handler_server_stream" not in rsrc:
                # the unary reply may be sent by a helper of ServiceBase: it awaits the handler once on the request it is given
                # and sends exactly that result
                srv_mod = ctx.repo.mod(M_SERVER)
                for c in ast.walk(rpc):
                    if isinstance(c, ast.Call) and isinstance(c.func, ast.Attribute) and isinstance(c.func.value, ast.Name) and c.func.value.id == "self" \
                            and srv_mod.has(f"ServiceBase.{c.func.attr}") and len(c.args) == 3 and [ast.unparse(a) for a in c.args[1:]] == ["stream", "request"]:
                        hf = srv_mod.func(f"ServiceBase.{c.func.attr}")
                        hp = [a.arg for a in hf.args.args[1:]]
                        if len(hp) == 3 and not any(isinstance(n, (ast.For, ast.AsyncFor, ast.While)) for n in ast.walk(hf)):
                            awaited = [n for n in ast.walk(hf) if isinstance(n, ast.Assign) and isinstance(n.value, ast.Await) and isinstance(n.value.value, ast.Call)
                                       and ast.unparse(n.value.value.func) == hp[0] and [ast.unparse(a) for a in n.value.value.args] == [hp[2]] and isinstance(n.targets[0], ast.Name)]
                            sends = [n for n in ast.walk(hf) if isinstance(n, ast.Call) and ast.unparse(n.func) == f"{hp[1]}.send_message"]
                            if len(awaited) == 1 and len(sends) == 1 and sends[0].args and ast.unparse(sends[0].args[0]) == awaited[0].targets[0].id:
                                rep_ok = True
            # the received message reaches the handler whatever its value: a message whose fields all hold defaults is falsy
            # (Message.__bool__), so only an identity test against None may stand between recv_message() and the handler
            truthy = [n for n in ast.walk(rpc) if isinstance(n, (ast.If, ast.IfExp, ast.Assert, ast.While)) and any(
                (isinstance(t, ast.Name) and t.id == "request") or (isinstance(t, ast.UnaryOp) and isinstance(t.op, ast.Not) and isinstance(t.operand, ast.Name) and t.operand.id == "request")
                for t in ([n.test] + (list(n.test.values) if isinstance(n.test, ast.BoolOp) else [])))]
            if truthy:
                ctx.refuted("G4", f"adapter-forwards-every-request[{tag}]", ast.unparse(truthy[0].test), T_BODY,
                            f"the generated adapter tests the truth value of the received request (`{ast.unparse(truthy[0].test)}`): betterproto messages are falsy when every field holds its "
                            "default, so a legitimate request such as Empty() or Range(start=0) never reaches the handler", "call a unary RPC with a request whose fields are all default")
            elif not cs:
                ctx.proved("G4", f"adapter-forwards-every-request[{tag}]", T_BODY)
            if req_ok and rep_ok:
                ctx.proved("G4", f"adapter[{tag}]", T_BODY)
            else:
                ctx.refuted("G4", f"adapter[{tag}]", f"req_ok={req_ok};rep_ok={rep_ok}", T_BODY, f"__rpc adapter for {want_pair} is `{rsrc[:160]}`")
        default = next((f for f in base.body if isinstance(f, ast.AsyncFunctionDef) and f.name == sm.name), None)
        if default is not None:
            first = default.body[0] if default.body else None
            raises_first = isinstance(first, ast.Raise) and "UNIMPLEMENTED" in ast.unparse(first)
            has_yield = any(isinstance(n, (ast.Yield, ast.YieldFrom)) for n in ast.walk(default))
            if raises_first and has_yield == ss:
                ctx.proved("G4", f"default-body[{tag}]", T_BODY)
            elif not raises_first:
                ctx.refuted("G4", f"default-body[{tag}]", "no-unimplemented", T_BODY, "the default Base method does not raise GRPCError(UNIMPLEMENTED) first")
            else:
                ctx.refuted("G4", f"default-body[{tag}]", f"yield={has_yield}", T_BODY,
                            f"the default Base method for a {'server-streaming' if ss else 'unary-response'} RPC {'lacks' if ss else 'has'} a `yield`: "
                            + ("it is then a plain coroutine, _call_rpc_handler_server_stream treats its result as an empty iterator and never runs it, so UNIMPLEMENTED is never raised" if ss else "it becomes an async generator and `await self.m(request)` fails"),
                            "call a server-streaming RPC that the server does not override")
    # G5: kwarg precedence - what each helper hands to channel.request for timeout / deadline / metadata: the call-level
    # value unless it is None, then the stub-level one (decided on the paths of the helper with its private callees inlined)
    inl = {}
    for mname, fns in client.methods("ServiceStub").items():
        if mname.startswith("_") and not (mname.startswith("__") and mname.endswith("__")) and mname not in HELPER_FOR.values() and mname != "_send_messages":
            inl[f"self.{mname}"] = (client, fns[0])
    for h in HELPER_FOR.values():
        hf = client.func(f"ServiceStub.{h}")
        paths = Interp(client, inline=inl, fork_ifexp=True).run(hf)
        ctx.count(len(paths))
        verdicts: Dict[str, Set[str]] = {k: set() for k in ("timeout", "deadline", "metadata")}
        n_req = 0
        for p in paths:
            reqs = [e for e in p.events if e.kind == "call" and dotted(e.data[1]).endswith("channel.request")]
            if not reqs:
                continue
            n_req += 1
            kws: Dict[str, Any] = {}
            for k, v in reqs[0].data[3]:
                if k is None or k == "#":
                    if v[0] == "dictd":
                        for kk, vv in v[1]:
                            if kk[0] == "c":
                                kws[kk[1]] = vv
                    else:
                        kws["**"] = v
                else:
                    kws[k] = v
            for key in verdicts:
                arg, dflt = N(key), A(N("self"), key)
                val = kws.get(key)
                none_atom = p.valuation.get(("op", "is", arg, C(None)))
                if val is None:
                    verdicts[key].add("unrecognised" if "**" in kws else "dropped")
                elif val == ("ife", ("op", "is", arg, C(None)), dflt, arg):
                    verdicts[key].add("ok")
                elif val == arg and none_atom is False:
                    verdicts[key].add("ok")
                elif val == dflt and none_atom is True:
                    verdicts[key].add("ok")
                elif val[0] == "op" and val[1] == "or":
                    verdicts[key].add("truthiness")
                elif val in (arg, dflt) and (p.valuation.get(arg) is not None):
                    verdicts[key].add("truthiness")
                elif val in (arg, dflt):
                    verdicts[key].add("inverted-or-dropped")
                else:
                    verdicts[key].add("unrecognised")
        if not n_req:
            ctx.refuted("G5", f"{h}:forwards-resolved-kwargs", "missing", client.loc(hf), f"{h} does not reach channel.request")
            continue
        ctx.proved("G5", f"{h}:forwards-resolved-kwargs", client.loc(hf), f"{n_req} paths reach channel.request")
        for key, vs in verdicts.items():
            name = f"kwarg-precedence[{key}]" if h == "_unary_unary" else f"{h}:kwarg-precedence[{key}]"
            if vs == {"ok"}:
                ctx.proved("G5", name, client.loc(hf))
            elif "truthiness" in vs:
                ctx.refuted("G5", name, "truthiness", client.loc(hf),
                            f"{key} is resolved by truthiness: a falsy call-level value ({{}} / 0 / []) does not override the stub-level default",
                            f"stub = Stub(ch, {key}=<default>); stub.rpc(req, {key}=<falsy value>)")
            elif vs & {"inverted-or-dropped", "dropped"}:
                ctx.refuted("G5", name, "inverted-or-dropped", client.loc(hf), f"{h}: the call-level {key} does not take precedence over the stub default (or is not forwarded)")
            else:
                ctx.inconclusive("G5", name, f"resolution of {key} not recognised", client.loc(hf))
    # G7: server streaming helper sends each message in order
    srv = ctx.repo.mod(M_SERVER)
    sf = srv.func("ServiceBase._call_rpc_handler_server_stream")
    loops = [n for n in ast.walk(sf) if isinstance(n, ast.AsyncFor)]
    ok = len(loops) == 1 and len([c for c in ast.walk(loops[0]) if isinstance(c, ast.Call) and ast.unparse(c.func) == "stream.send_message"]) == 1
    if ok:
        tgt = ast.unparse(loops[0].target)
        sent = [ast.unparse(c.args[0]) for c in ast.walk(loops[0]) if isinstance(c, ast.Call) and ast.unparse(c.func) == "stream.send_message" and c.args]
        ok = sent == [tgt]
    if ok:
        ctx.proved("G7", "_call_rpc_handler_server_stream:sends-each-message", srv.loc(sf))
    else:
        ctx.refuted("G7", "_call_rpc_handler_server_stream:sends-each-message", "shape", srv.loc(sf), "the server-streaming helper does not send exactly each yielded message once, in order")


def rule_G11(ctx, rule: str = "G11") -> None:
    """the stub-level defaults are kept as given: what ServiceStub.__init__ stores for timeout / deadline / metadata is a function
    of that one parameter only.  G5 proves that a call resolves `self.<key> if <key> is None else <key>`; that is the stated
    precedence only while self.<key> is the caller's own default for that key - a timeout folded into the stored deadline (or a
    clock read at construction) caps calls that pass their own, longer, timeout"""
    client = ctx.repo.mod(M_CLIENT)
    fn = client.func("ServiceStub.__init__")
    ctx.analysed("ServiceStub.__init__")
    paths = Interp(client, fork_ifexp=True).run(fn)
    ctx.count(len(paths))
    keys = ("timeout", "deadline", "metadata")
    bad: Dict[str, str] = {}
    stored: Dict[str, int] = {k: 0 for k in keys}
    for p in paths:
        if p.outcome == "raise":
            continue
        last: Dict[str, Any] = {}
        for e in p.events:
            if e.kind == "store" and e.data[0][0] == "a" and e.data[0][1] == N("self") and e.data[0][2] in keys:
                last[e.data[0][2]] = e.data[1]
        for k in keys:
            if k not in last:
                bad.setdefault(k, f"on {p.val_text() or 'the only path'} self.{k} is not stored")
                continue
            stored[k] += 1
            v = last[k]
            others = sorted({t[1] for t in _walk(v) if t[0] == "n" and t[1] in keys and t[1] != k})
            clock = sorted({dotted(t[1]) for t in _walk(v) if t[0] == "call" and dotted(t[1]).split(".")[-1] in ("from_timeout", "time", "monotonic", "now")})
            if others or clock:
                bad.setdefault(k, f"on {p.val_text() or 'the only path'} self.{k} = {show(v)[:120]}: it depends on {' and '.join(['the ' + o + ' parameter' for o in others] + ['the clock at construction (' + c + ')' for c in clock])}, "
                               f"so the stub-level {k} that a call falls back to is not the one the caller configured: a call-level {'timeout' if 'timeout' in others else others[0] if others else k} no longer takes precedence over it")
            elif k not in {t[1] for t in _walk(v) if t[0] == "n"}:
                bad.setdefault(k, f"on {p.val_text() or 'the only path'} self.{k} = {show(v)[:80]} does not come from the {k} parameter")
    for k in keys:
        name = f"stub-default-kept[{k}]"
        if k in bad:
            ctx.refuted(rule, name, "not-kept", client.loc(fn), bad[k], f"stub = Stub(ch, timeout=0.05); await stub.rpc(req, timeout=5)   # handler sleeps 0.2 s")
        else:
            ctx.proved(rule, name, client.loc(fn), f"{stored[k]} paths store a value built from the {k} parameter alone")


def rule_G13(ctx, rule: str = "G13") -> None:
    """resolving the options of one call leaves the stub as it was: __resolve_request_kwargs and the four call helpers neither
    assign attributes of `self` nor change, in place, an object they read from `self` (update / setdefault / item store on
    `self.<x>` or on a local that is just another name for it) - a call-level timeout / deadline / metadata written into the
    stub-level defaults is what the next call, which passes nothing, is sent with"""
    client = ctx.repo.mod(M_CLIENT)
    n = 0
    bad = None
    for mname, fns in client.methods("ServiceStub").items():
        if mname == "__init__":
            continue
        fn = fns[0]
        n += 1
        # locals that are another name for something held by self
        aliases = {a.targets[0].id for a in ast.walk(fn) if isinstance(a, ast.Assign) and len(a.targets) == 1 and isinstance(a.targets[0], ast.Name)
                   and isinstance(a.value, ast.Attribute) and isinstance(a.value.value, ast.Name) and a.value.value.id == "self" and a.value.attr not in ("channel",)}

        def held(e: ast.AST) -> bool:
            return (isinstance(e, ast.Attribute) and isinstance(e.value, ast.Name) and e.value.id == "self" and e.attr != "channel") or (isinstance(e, ast.Name) and e.id in aliases)

        for x in ast.walk(fn):
            hit = None
            if isinstance(x, (ast.Assign, ast.AugAssign, ast.AnnAssign)):
                for t in (x.targets if isinstance(x, ast.Assign) else [x.target]):
                    if isinstance(t, ast.Attribute) and isinstance(t.value, ast.Name) and t.value.id == "self":
                        hit = (x, f"assigns self.{t.attr}")
                    elif isinstance(t, ast.Subscript) and held(t.value):
                        hit = (x, f"stores into {ast.unparse(t.value)}")
            elif isinstance(x, ast.Call) and isinstance(x.func, ast.Attribute) and x.func.attr in ("update", "setdefault", "pop", "popitem", "clear", "append", "extend", "__setitem__") and held(x.func.value):
                hit = (x, f"calls {ast.unparse(x.func)}(..) on what the stub holds")
            if hit and bad is None:
                bad = (mname, hit[0], hit[1])
    ctx.count(n)
    ctx.floor(rule, "stub methods", n, 5)
    name = "stub:call-options-do-not-change-the-stub"
    if bad:
        mname, node, what = bad
        ctx.refuted(rule, name, f"{mname}:{what}"[:80], client.loc(node), f"ServiceStub.{mname} {what} (`{ast.unparse(node)[:90]}`): the options of one call are written into the stub, and a later call "
                    "through the same stub that passes nothing is sent with them instead of the stub-level defaults", "stub.rpc(req, metadata={'who': 'call'}); stub.rpc(req)  # second call carries who=call")
    else:
        ctx.proved(rule, name, client.rel, f"{n} methods of the stub besides __init__: none writes to the stub or to what it holds")


def rule_G9(ctx, rule: str = "G9") -> None:
    """request / response types of an RPC are message classes: the type references the service compiler hands to the
    template (stub signatures, handler table) are produced with unwrapping switched off - a wrapper / Timestamp / Duration
    used directly as request or response must stay the message class, not Optional[int] / datetime"""
    mod = ctx.repo.mod(M_MODELS)
    for q in ("ServiceMethodCompiler.py_input_message_type", "ServiceMethodCompiler.py_output_message_type"):
        fn = mod.func(q)
        ctx.analysed(q)
        paths = Interp(mod).run(fn)
        ctx.count(len(paths))
        calls_ = [e.data for p in paths for e in p.events if e.kind == "call" and dotted(e.data[1]).split(".")[-1] == "get_type_reference"]
        name = f"{q.split('.')[-1]}:keeps-message-class"
        if not calls_:
            ctx.inconclusive(rule, name, "no get_type_reference call reached", mod.loc(fn))
            continue
        gtr = ctx.repo.mod("src/betterproto/compile/importing.py").func("get_type_reference")
        params = [a.arg for a in gtr.args.args + gtr.args.kwonlyargs]
        defaults = dict(zip([a.arg for a in gtr.args.args][len(gtr.args.args) - len(gtr.args.defaults):], gtr.args.defaults))
        defaults.update({a.arg: d for a, d in zip(gtr.args.kwonlyargs, gtr.args.kw_defaults) if d is not None})
        bad = None
        for c in calls_:
            kw = dict(c[3])
            v = kw.get("unwrap")
            if v is None and "unwrap" in params and params.index("unwrap") < len(c[2]):
                v = c[2][params.index("unwrap")]
            if v is None:
                d = defaults.get("unwrap")
                v = C(d.value) if isinstance(d, ast.Constant) else None
            if v != C(False):
                bad = show(v) if v is not None else "default"
        if bad:
            ctx.refuted(rule, name, f"unwrap={bad}", mod.loc(fn),
                        f"{q} asks get_type_reference with unwrap={bad}: an RPC whose request / response is a google.protobuf wrapper, Timestamp or Duration gets Optional[int] / datetime "
                        "in the stub signature and in the handler table instead of the message class - the generated module fails or the call cannot be (de)serialised",
                        "rpc Get(google.protobuf.StringValue) returns (google.protobuf.Timestamp)")
        else:
            ctx.proved(rule, name, mod.loc(fn), "unwrap=False")


# ---------------------------------------------------------------------------
# X1 imports_end: producers precede the consumer loop


def _producer_props(ctx) -> Dict[str, Set[str]]:
    """class -> properties whose evaluation registers an import in imports_end (directly or through another property)"""
    mod = ctx.repo.mod(M_MODELS)
    direct: Dict[str, Set[str]] = {}
    uses: Dict[Tuple[str, str], Set[str]] = {}
    for cname in [k for k, v in mod.defs.items() if any(isinstance(x, ast.ClassDef) for x in v)]:
        cls = mod.cls(cname)
        for b in cls.body:
            if isinstance(b, ast.FunctionDef):
                src = ast.unparse(b)
                if "get_type_reference(" in src and "imports_end" in src:
                    direct.setdefault(cname, set()).add(b.name)
                uses[(cname, b.name)] = {n.attr for n in ast.walk(b) if isinstance(n, ast.Attribute) and isinstance(n.value, ast.Name) and n.value.id == "self"}
    changed = True
    while changed:
        changed = False
        for (cname, fname), used in uses.items():
            prod = set()
            for c in _mro_names(mod, cname):
                prod |= direct.get(c, set())
            if fname not in direct.get(cname, set()) and used & prod:
                direct.setdefault(cname, set()).add(fname)
                changed = True
    return direct


def _mro_names(mod, cname: str) -> List[str]:
    out = [cname]
    try:
        cls = mod.cls(cname)
    except AnalysisError:
        return out
    for b in cls.bases:
        bn = ast.unparse(b)
        if mod.has(bn):
            out.extend(_mro_names(mod, bn))
    return out


def rule_X1b(ctx, rule: str = "X1") -> None:
    """the import lines for other packages stand below the message and enum classes of the generated module: two packages
    that refer to each other are imported one inside the other, and the inner import (`from .. import Type as _Type__`, a
    class import when the type lives in the root package) only succeeds if the outer module has defined its classes already"""
    n = 0
    for comp in ("direct", "310"):
        for pyd in (False, True):
            cfg = next(configs(["plain"], compilers=(comp,), pydantic=(pyd,), streaming=[(False, False)]))
            text, _ = residual(ctx, cfg)
            tree, err = parse_residual(text)
            name = f"imports_end-below-the-classes[typing.{comp}{',pydantic' if pyd else ''}]"
            if tree is None:
                ctx.inconclusive(rule, name, f"residual module does not parse: {err}", T_BODY)
                continue
            n += 1
            ctx.count(1)
            imp = [i for i, st in enumerate(tree.body) if isinstance(st, ast.ImportFrom) and any(a.asname == "xpkg__" for a in st.names)]
            cls = [i for i, st in enumerate(tree.body) if isinstance(st, ast.ClassDef) and any(ast.unparse(b) in ("betterproto.Message", "betterproto.Enum") for b in st.bases)]
            if not imp or not cls:
                ctx.inconclusive(rule, name, f"cross-package import line ({len(imp)}) or message classes ({len(cls)}) not found in the residual module", T_BODY)
            elif min(imp) > max(cls):
                ctx.proved(rule, name, T_BODY, f"import at statement {min(imp)}, last message / enum class at {max(cls)}")
            else:
                ctx.refuted(rule, name, f"import@{min(imp)}<class@{max(cls)}", T_BODY,
                            "the cross-package import lines are rendered above the message / enum classes: when the imported package refers back to this one (two packages using each "
                            "other's types, one of them the root package), its `from .. import Type` runs while this module has not defined Type yet - ImportError on import of the generated package",
                            "a file without package using a type of package p, and a file of p using a type declared without package")
    ctx.floor(rule, "rendered configurations", n, 2)


def rule_X1(ctx) -> None:
    rule_X1b(ctx)
    mod = ctx.repo.mod(M_MODELS)
    tm = tmodel(ctx)
    # every get_type_reference call passes imports=<...>.imports_end
    n_calls = 0
    for n in ast.walk(mod.tree):
        if isinstance(n, ast.Call) and ast.unparse(n.func) == "get_type_reference":
            n_calls += 1
            imp = next((k.value for k in n.keywords if k.arg == "imports"), None)
            if imp is not None and ast.unparse(imp).endswith(".imports_end"):
                ctx.proved("X1", f"get_type_reference-call@{_enclosing_name(mod, n)}:imports_end", mod.loc(n))
            else:
                ctx.refuted("X1", f"get_type_reference-call@{_enclosing_name(mod, n)}:imports_end", ast.unparse(imp) if imp is not None else "none", mod.loc(n),
                            "this type reference does not register its import line in the output file's imports_end: the generated module lacks the import")
    ctx.floor("X1", "get_type_reference call sites", n_calls, 1)     # helpers may merge the call sites; each remaining one is checked
    # the template renders every element of imports_end at module level, unconditionally
    loops = [f for f in tm.body.find_all(jn.For) if jtext(f.iter).split("|")[0] == "output_file.imports_end"]
    if len(loops) != 1:
        ctx.refuted("X1", "template:imports_end-loop", f"{len(loops)}-loops", T_BODY, f"the body template has {len(loops)} loops over output_file.imports_end; expected exactly one")
        return
    lp = loops[0]
    top_level = any(n is lp for n in tm.body.body)
    prints_item = any(isinstance(o, jn.Output) and any(isinstance(x, jn.Name) and isinstance(lp.target, jn.Name) and x.name == lp.target.name for x in o.nodes) for o in lp.body)
    if top_level and prints_item:
        ctx.proved("X1", "template:imports_end-loop", f"{T_BODY}:{lp.lineno}")
    else:
        ctx.refuted("X1", "template:imports_end-loop", f"top_level={top_level};prints={prints_item}", f"{T_BODY}:{lp.lineno}",
                    "the imports_end loop is nested inside a conditional/loop or does not print its element: import lines are lost for some schemas")
    # producers evaluated only at render time must be rendered before the loop
    prods = _producer_props(ctx)
    construction = set()
    for cname in prods:
        for c in _mro_names(mod, cname):
            if mod.has(f"{c}.__post_init__"):
                pi = mod.func(f"{c}.__post_init__")
                # methods reachable from __post_init__ through self.<x>
                reach, todo = set(), [pi]
                while todo:
                    f = todo.pop()
                    for n in ast.walk(f):
                        if isinstance(n, ast.Attribute) and isinstance(n.value, ast.Name) and n.value.id == "self" and n.attr not in reach:
                            reach.add(n.attr)
                            for c2 in _mro_names(mod, cname):
                                if mod.has(f"{c2}.{n.attr}"):
                                    todo.extend(x for x in mod.get_all(f"{c2}.{n.attr}") if isinstance(x, ast.FunctionDef))
                construction |= {(cname, p) for p in prods[cname] if p in reach}
    order: List[Tuple[int, str, str]] = []     # (position, kind, text)
    pos = [0]

    def walk(nodes_):
        for n in nodes_:
            pos[0] += 1
            if n is lp:
                order.append((pos[0], "loop", ""))
            for g in ([n] if isinstance(n, jn.Getattr) else []):
                pass
            if isinstance(n, jn.Node):
                for g in n.find_all(jn.Getattr) if not isinstance(n, (jn.For, jn.If)) else []:
                    order.append((pos[0], "attr", g.attr))
                if isinstance(n, jn.If):
                    for g in n.test.find_all(jn.Getattr):
                        order.append((pos[0], "attr", g.attr))
                    walk(n.body)
                    for el in n.elif_:
                        walk(el.body)
                    walk(n.else_)
                elif isinstance(n, jn.For):
                    for g in n.iter.find_all(jn.Getattr):
                        order.append((pos[0], "attr", g.attr))
                    walk(n.body)
    walk(tm.body.body)
    loop_pos = next((p for p, k, _ in order if k == "loop"), None)
    render_only = {p for cname, ps in prods.items() for p in ps if (cname, p) not in construction and cname.startswith("ServiceMethod")}
    late = []
    for prop in sorted(render_only):
        uses_ = [p for p, k, t in order if k == "attr" and t == prop]
        if uses_ and loop_pos is not None and min(uses_) > loop_pos:
            late.append(prop)
    if late:
        ctx.refuted("X1", "template:producers-before-imports_end", ",".join(late), f"{T_BODY}:{lp.lineno}",
                    f"{late} register their import lines in imports_end only when the template evaluates them, and their first use comes after the imports_end loop: "
                    "imports needed only by RPC input/output types are never emitted",
                    "a service whose RPC uses a message from another package that no field of this package references")
    else:
        ctx.proved("X1", "template:producers-before-imports_end", f"{T_BODY}:{lp.lineno}", f"render-time producers {sorted(render_only)}")


def _enclosing_name(mod, node: ast.AST) -> str:
    best = "<module>"
    for q, fn in mod.functions():
        if any(x is node for x in ast.walk(fn)):
            best = q
    return best


# ---------------------------------------------------------------------------
# P1 template <-> model interface


def rule_P1(ctx) -> None:
    tm = tmodel(ctx)
    ct = ClassTable()
    for rel in (M_MODELS, M_TYPING, M_LIB_STD, M_LIB_STD_COMPILER):
        ct.add_module(ctx.repo.mod(rel))
    undefined = tm.options.get("undefined", "")
    if "StrictUndefined" in undefined:
        ctx.proved("P1", "environment:StrictUndefined", M_MODELS)
    else:
        ctx.notes.append("jinja Environment does not use StrictUndefined: a missing attribute renders as empty text instead of failing")
    total = 0
    for tname, tree, rel in (("body", tm.body, T_BODY), ("header", tm.header, T_HEADER)):
        loopv = tm.loop_vars(tree)
        var_types: Dict[str, List[str]] = {"output_file": ["OutputTemplate"]}
        # resolve loop variable types by iterating to a fixpoint over the nesting
        for _ in range(4):
            for v, its in loopv.items():
                cands: List[str] = []
                for it in its:
                    parts = it.replace("()", "").split(".")
                    root, chain = parts[0], parts[1:]
                    res = _resolve(ct, var_types.get(root, []), chain)
                    if res is not None:
                        for ann in res:
                            c, cont = type_candidates(ann)
                            cands.extend(c)
                if cands:
                    var_types[v] = sorted(set(cands))
        seen = set()
        for root, chain, line, arity in tm.getattr_chains(tree):
            key = (root, tuple(chain))
            if key in seen:
                continue
            seen.add(key)
            if root == "loop":
                continue
            total += 1
            name = f"{tname}:{root}.{'.'.join(chain)}"
            if root not in var_types:
                ctx.refuted("P1", name, "unknown-variable", f"{rel}:{line}", f"template variable `{root}` is not bound by the render call or an enclosing loop")
                continue
            res = _resolve(ct, var_types[root], [c for c in chain if c != "()"], want_call=arity)
            if res is None:
                ctx.refuted("P1", name, "unresolved", f"{rel}:{line}",
                            f"`{root}.{'.'.join(chain)}` does not resolve to a field, property or method of {var_types[root]} (or a subclass): with StrictUndefined the plugin fails for every schema",
                            "run the plugin on any schema")
            else:
                ctx.proved("P1", name, f"{rel}:{line}")
    ctx.floor("P1", "distinct attribute paths", total, 45)


def _resolve(ct: ClassTable, classes: List[str], chain: List[str], want_call: Optional[int] = None) -> Optional[List[str]]:
    """annotation texts reached by following chain from any candidate class; None if no candidate resolves"""
    if not chain:
        return [c for c in classes]
    results: List[str] = []
    for c in classes:
        c = c.strip('"').strip("'")
        b = builtin_has(c, chain[0])
        if b is not None:
            if b:
                results.append("str" if c == "str" else "")
            continue
        cands = [c] + ct.subclasses(c)
        for cc in cands:
            hit = ct.lookup(cc, chain[0])
            if hit is None:
                continue
            kind, ann, fn = hit
            if len(chain) == 1:
                if want_call is not None and kind == "method" and fn is not None:
                    a = fn.args
                    n_params = len(a.args) - 1
                    n_req = n_params - len(a.defaults)
                    if not (n_req <= want_call <= n_params or a.vararg is not None):
                        continue
                results.append(ann or "")
            else:
                nxt, _ = type_candidates(ann) if ann else ([], False)
                sub = _resolve(ct, nxt, chain[1:], want_call)
                if sub is not None:
                    results.extend(sub)
                elif not ann:
                    results.append("")
    return results or None


# ---------------------------------------------------------------------------
# Y2(iii) names whose import is decided on the Python side: `warnings`


def rule_Y2iii(ctx, rule: str = "Y2") -> None:
    """every template condition under which `warnings.` is emitted has a matching disjunct in
    OutputTemplate.python_module_imports (which decides whether `import warnings` is generated)"""
    tm = tmodel(ctx)
    mod = ctx.repo.mod(M_MODELS)
    # template side: (collection path of the loop variable, attribute chain) for each guarding condition
    loop_coll: Dict[str, str] = {}
    for f in tm.body.find_all(jn.For):
        if isinstance(f.target, jn.Name):
            it = jtext(f.iter).split("|")[0]
            root, _, rest = it.partition(".")
            base = loop_coll.get(root, "") if root != "output_file" else ""
            loop_coll.setdefault(f.target.name, (base + "." if base else "") + rest)
    conds: Dict[Tuple[str, str], int] = {}

    def guarded(nodes_, stack):
        for n in nodes_:
            if isinstance(n, jn.Output):
                if any(isinstance(x, jn.TemplateData) and "warnings." in x.data for x in n.nodes) and stack:
                    t = stack[-1]
                    leaf = t
                    while isinstance(leaf, jn.Not):
                        leaf = leaf.node
                    for part in ([leaf.left, leaf.right] if isinstance(leaf, jn.Or) else [leaf]):
                        txt = jtext(part)
                        var, _, chain = txt.partition(".")
                        conds[(loop_coll.get(var, var), chain)] = n.lineno
            elif isinstance(n, jn.If):
                guarded(n.body, stack + [n.test])
                for el in n.elif_:
                    guarded(el.body, stack + [el.test])
                guarded(n.else_, stack)
            elif isinstance(n, jn.For):
                # a loop over a collection is a condition "the collection is non-empty"
                it = jtext(n.iter).split("|")[0]
                var, _, chain = it.partition(".")
                guarded(n.body, stack + [n.iter] if chain and "deprecated" in chain else stack)
    guarded(tm.body.body, [])
    if not conds:
        raise AnalysisError("template: no condition guarding `warnings.` found")
    # python side
    fn = mod.func("OutputTemplate.python_module_imports")
    have: Set[Tuple[str, str]] = set()
    var_coll: Dict[str, Set[str]] = {}
    # the property together with the private methods of OutputTemplate it asks (`if self._has_deprecated_definitions():`)
    scope = [fn]
    for _ in range(3):
        for f_ in list(scope):
            for c_ in ast.walk(f_):
                if isinstance(c_, ast.Call) and isinstance(c_.func, ast.Attribute) and isinstance(c_.func.value, ast.Name) and c_.func.value.id == "self" \
                        and mod.has(f"OutputTemplate.{c_.func.attr}"):
                    h_ = mod.func(f"OutputTemplate.{c_.func.attr}")
                    if all(h_ is not x for x in scope):
                        scope.append(h_)
    walk_all = [n for f_ in scope for n in ast.walk(f_)]
    comps = [n for n in walk_all if isinstance(n, (ast.GeneratorExp, ast.ListComp, ast.SetComp))] + [n for n in walk_all if isinstance(n, ast.For)]
    for _round in range(6):       # nesting depth of the comprehensions is tiny; the sets only grow
        for c in comps:
            gens = c.generators if not isinstance(c, ast.For) else [c]
            for g_ in gens:
                tgt = g_.target.id if isinstance(g_.target, ast.Name) else None
                it = ast.unparse(g_.iter)
                if tgt is None:
                    continue
                root, _, rest = it.partition(".")
                if root == "self" and rest:
                    var_coll.setdefault(tgt, set()).add(rest)
                elif root in var_coll and rest and root != tgt:
                    for base in list(var_coll[root]):
                        if base.count(".") < 3:
                            var_coll.setdefault(tgt, set()).add(base + "." + rest)
    for n in walk_all:
        if isinstance(n, ast.Attribute):
            txt = ast.unparse(n)
            root, _, chain = txt.partition(".")
            if root in var_coll and chain:
                for coll in var_coll[root]:
                    have.add((coll, chain))
    # a property that only forwards (`return self.proto_obj.options.deprecated`) and the chain it forwards to are one question
    KIND = {"messages": "MessageCompiler", "services.methods": "ServiceMethodCompiler", "messages.fields": "FieldCompiler", "services": "ServiceCompiler", "enums": "EnumDefinitionCompiler"}

    def norm2(coll: str, chain: str) -> str:
        chain = chain.replace("has_deprecated_fields", "deprecated_fields")
        cls_ = KIND.get(coll)
        head, _, rest = chain.partition(".")
        if cls_ and mod.has(f"{cls_}.{head}"):
            pf = mod.func(f"{cls_}.{head}")
            rets_ = [r.value for r in ast.walk(pf) if isinstance(r, ast.Return) and r.value is not None]
            if len(rets_) == 1 and isinstance(rets_[0], ast.Attribute) and ast.unparse(rets_[0]).startswith("self.") and any(
                    "property" in ast.unparse(d) for d in pf.decorator_list):
                return ast.unparse(rets_[0])[5:] + ("." + rest if rest else "")
        return chain

    have_n = {(a, norm2(a, b)) for a, b in have}
    for (coll, chain), line in sorted(conds.items()):
        name = f"warnings-import:{coll}.{chain}"
        if (coll, norm2(coll, chain)) in have_n:
            ctx.proved(rule, name, f"{T_BODY}:{line}")
        else:
            ctx.refuted(rule, name, "no-matching-disjunct", mod.loc(fn),
                        f"the template emits `warnings.warn(...)` under the condition `{chain}` on elements of `{coll}`, but python_module_imports (which decides whether `import warnings` is generated) "
                        f"looks only at {sorted(have)}: a module where only this condition holds calls warnings.warn without importing warnings (NameError at call time)",
                        "a service whose only deprecated item is one RPC method")
