"""C10 - delimited streams (S1-S4)."""
from . import decode, varint
from .c09 import rule_L5, rule_L1, rule_L2, rule_L3

PROP = "C10"
TECHNIQUE = "abstract interpretation of Message.load over the ordering domain {read<size, =, >}; CFG must-pass for accounting and length checks; L1/L5 for the prefix"
EXPLANATION = (
    "Static framing check: Message.load is abstractly interpreted on its control-flow graph over the three orderings of the byte "
    "counter against the declared size (with a read==0 refinement), deciding that the next field is only read while read < size and "
    "that a normal return only happens at read == size; must-pass-through queries decide that every loop iteration accounts for its "
    "bytes and that every payload read is length-checked; the length prefix written by dump is len(self) (L5) and len(self) is the "
    "image of dump (L1)."
)
RULE_TEXT = "obligation = (rule, construct); evaluations = abstract states visited + paths; non-trivial = distinct constructs"


def run(ctx) -> None:
    for name, fn in (("S1", decode.rule_S1), ("S2", decode.rule_S2), ("S3", decode.rule_S3), ("S4/M3", decode.rule_M3),
                     ("M3b", decode.rule_M3b), ("N3", varint.rule_N3), ("L5", rule_L5), ("L1", rule_L1), ("L2", rule_L2), ("L3", rule_L3)):
        ctx.rules_run.append(name)
        fn(ctx)
    # the size prefix is a varint: the writer at the boundary values of every group (a frame of exactly 128 bytes)
    ctx.rules_run += ["N1", "N8"]
    varint.rule_N1(ctx)
    varint.rule_N8(ctx)
