"""C18 - every supported plugin option yields importable, identical code (Y1-Y6)."""
from __future__ import annotations

import ast
from typing import Any, Dict, List, Optional, Set, Tuple

from jinja2 import nodes as jn

from ..jinja_model import TypingShapes, jtext
from ..proto_text import read_lib
from ..src import AnalysisError, M_LIB_PYD, M_LIB_PYD_COMPILER, M_LIB_STD, M_LIB_STD_COMPILER, M_MODELS, M_PARSER, M_TYPING, T_BODY
from . import template
from .c03 import rule_P3

PROP = "C18"
TECHNIQUE = "template specialisation over the option matrix (3 typing compilers x 2 dataclass modes x 4 cardinalities x variants) with ast.parse of each residual module; import-time free-name analysis; sibling comparison of the bundled std/pydantic libraries"
EXPLANATION = (
    "Static per-configuration check: both templates are partially evaluated for every combination of typing compiler, dataclass mode, "
    "streaming cardinality and structural variant, with the typing holes filled by the abstract result of each TypingCompiler "
    "implementation (its methods are folded on string tokens by the abstract interpreter); each residual module must parse; names "
    "evaluated at import time must be bound at that point of the module; the three compilers implement one interface consistently; "
    "the bundled std and pydantic libraries agree on every field they share (apart from the optional=True that the pydantic oneof "
    "compiler introduces by design); annotation and field arguments consult the same `optional` property. Byte/JSON identity at run "
    "time is not decided."
)
RULE_TEXT = "obligation = (rule, configuration group / compiler method / shared class); evaluations = residual modules parsed + fields compared; non-trivial = distinct configurations"


def rule_Y3(ctx) -> None:
    mod = ctx.repo.mod(M_TYPING)
    shapes = TypingShapes(ctx.repo)
    base = mod.cls("TypingCompiler")
    abstract = [b.name for b in base.body if isinstance(b, ast.FunctionDef) and any("abstractmethod" in ast.unparse(d) for d in b.decorator_list)]
    ctx.floor("Y3", "abstract methods", len(abstract), 8)
    def all_methods(cname: str):
        """the methods of the class, own ones first, then those inherited from base classes of this module other than the interface"""
        out, chain, seen = {}, [cname], set()
        while chain:
            c_ = chain.pop(0)
            if c_ in seen or c_ == "TypingCompiler" or c_ not in mod.defs:
                continue
            seen.add(c_)
            for k_, v_ in mod.methods(c_).items():
                out.setdefault(k_, v_)
            chain += [b_.id for b_ in getattr(mod.defs[c_][0], "bases", []) if isinstance(b_, ast.Name)]
        return out

    for key, cname in shapes.COMPILERS.items():
        meths = all_methods(cname)
        for m in abstract:
            name = f"{cname}.{m}"
            if m not in meths:
                ctx.refuted("Y3", name, "missing", mod.rel, f"{cname} does not implement {m}: instantiating it raises TypeError for every schema")
                continue
            fa, fb = meths[m][0].args, next(b for b in base.body if isinstance(b, ast.FunctionDef) and b.name == m).args
            if len(fa.args) != len(fb.args) or (fa.vararg is None) != (fb.vararg is None):
                ctx.refuted("Y3", name, "arity", mod.loc(meths[m][0]), f"{name} takes {len(fa.args) - 1} arguments, the interface {len(fb.args) - 1}")
                continue
            if m == "imports":
                ctx.proved("Y3", name, mod.loc(meths[m][0]))
                continue
            args = ["TA", "TB"][: len(fa.args) - 1] if fa.vararg is None else ["TA", "TB"]
            try:
                res, eff = shapes.apply(key, m, args)
            except AnalysisError as e:
                ctx.inconclusive("Y3", name, str(e), mod.loc(meths[m][0]))
                continue
            ctx.count()
            missing = [a for a in args if a not in res]
            emitted = res.strip('"').split("[")[0]
            ident = emitted.split(".")[-1]
            problem = None
            if missing:
                problem = f"result {res!r} does not embed the argument(s) {missing}"
            elif key == "direct" and ("typing", ident) not in eff:
                problem = f"emits {ident}[...] but registers {eff}: the name is not imported from typing"
            elif key == "root" and (not emitted.startswith("typing.") or ("typing", None) not in eff):
                problem = f"emits {emitted} but does not mark `typing` as imported ({eff})"
            elif key == "310" and "[" in res and ident[0].isupper() and ("collections.abc", ident) not in eff:
                problem = f"emits {ident}[...] but does not import it from collections.abc ({eff})"
            if not problem:
                # forward references arrive quoted: the result must stay one well-formed annotation
                # which arguments can be quoted is fixed by the call sites (models.py / template): optional, list and the
                # parts of a union receive quoted references, a map key is always a scalar, the (async) iterables receive
                # the already stripped RPC type
                quoted_positions = {"optional": (0,), "list": (0,), "dict": (1,), "union": (0, 1)}.get(m, ())
                qargs = [f'"{a}"' if i in quoted_positions else a for i, a in enumerate(args)]
                try:
                    qres, _ = shapes.apply(key, m, qargs)
                    inner = qres[1:-1] if qres.startswith('"') and qres.endswith('"') else None
                    if key == "310" and (inner is None or '"' in inner):
                        problem = f"with quoted (forward-reference) arguments the result is {qres}: quotes nested inside the quoted annotation make the generated module a SyntaxError"
                except AnalysisError as e:
                    problem = None
            if problem:
                ctx.refuted("Y3", name, problem[:60], mod.loc(meths[m][0]), f"{name}: {problem}", f"a schema using {m} under typing.{key}")
            else:
                ctx.proved("Y3", name, mod.loc(meths[m][0]), res)


def rule_Y4(ctx) -> None:
    std = {}
    pyd = {}
    for rel in (M_LIB_STD, M_LIB_STD_COMPILER):
        std.update(read_lib(ctx.repo.mod(rel)))
    for rel in (M_LIB_PYD, M_LIB_PYD_COMPILER):
        pyd.update(read_lib(ctx.repo.mod(rel)))
    n_m = n_e = 0
    for cname, sc in sorted(std.items()):
        pc = pyd.get(cname)
        if pc is None or pc.kind != sc.kind:
            continue
        bad = []
        if sc.kind == "enum":
            n_e += 1
            for k, v in sc.values.items():
                if k in pc.values and pc.values[k] != v:
                    bad.append(f"{k}: {pc.values[k]} != {v}")
        else:
            n_m += 1
            for fname, sf in sc.fields.items():
                pf = pc.fields.get(fname)
                if pf is None:
                    continue
                ctx.count()
                for attr in ("number", "kind", "group", "map_types", "wraps"):
                    if getattr(sf, attr) != getattr(pf, attr):
                        bad.append(f"{fname}.{attr}: {getattr(pf, attr)} != {getattr(sf, attr)}")
                # the one admitted difference: pydantic oneof members are optional=True with an Optional annotation
                if sf.group is not None:
                    if not pf.optional or "Optional[" not in pf.annotation:
                        bad.append(f"{fname}: pydantic oneof member must be optional=True / Optional[...]")
                elif pf.optional != sf.optional:
                    bad.append(f"{fname}.optional: {pf.optional} != {sf.optional}")
        if bad:
            ctx.refuted("Y4", f"std~pydantic:{cname}", ";".join(bad[:2]), f"{M_LIB_PYD}:{pc.line}", f"the pydantic copy of {cname} differs from the standard one on shared members: {bad}",
                        "compile with pydantic_dataclasses and compare bytes with the default configuration")
        else:
            ctx.proved("Y4", f"std~pydantic:{cname}", f"{M_LIB_PYD}:{pc.line}")
    ctx.floor("Y4", "shared messages", n_m, 55)
    ctx.floor("Y4", "shared enums", n_e, 18)


def rule_Y5(ctx) -> None:
    parser = ctx.repo.mod(M_PARSER)
    fn = parser.func("generate_code")
    src = ast.unparse(fn)
    handlers = {"direct": "DirectImportTypingCompiler", "root": "TypingImportTypingCompiler", "310": "NoTyping310TypingCompiler"}
    from ..absint import Interp
    from ..sym import show as _show, C
    # the local that collects the typing.* options / the option list itself
    tvar = next((n.targets[0].id for n in ast.walk(fn) if isinstance(n, ast.Assign) and isinstance(n.targets[0], ast.Name) and isinstance(n.value, (ast.ListComp, ast.GeneratorExp))
                 and any(isinstance(c, ast.Constant) and c.value == "typing." for c in ast.walk(n.value))), None)
    ovar = next((n.targets[0].id for n in ast.walk(fn) if isinstance(n, ast.Assign) and isinstance(n.targets[0], ast.Name)
                 and any(isinstance(c, ast.Call) and isinstance(c.func, ast.Attribute) and c.func.attr == "split" for c in ast.walk(n.value))), None)
    if ovar is None:
        raise AnalysisError("generate_code: collection of the plugin options not found")

    def selected(opts):
        # the option list bound to constants: the typing.* options are collected from it by folding (also inside a helper)
        lb = {ovar: tuple("typing." + o for o in opts)}
        if tvar is not None:
            lb[tvar] = tuple(opts)
        paths = Interp(parser, local_bindings=lb, fork_ifexp=True).run(fn)
        ctx.count(len(paths))
        vals = set()
        for p in paths:
            if p.outcome == "raise":
                vals.add("raise")
                continue
            got = {_show(e.data[1]) for e in p.events if e.kind == "store" and e.data[0][0] == "a" and e.data[0][2] == "typing_compiler"}
            vals |= got or {"none"}
        return vals

    for opt, cls in handlers.items():
        got = selected([opt])
        if got == {f"{cls}()"}:
            ctx.proved("Y5", f"option[typing.{opt}]", parser.loc(fn))
        else:
            ctx.refuted("Y5", f"option[typing.{opt}]", "no-handler" if got <= {"none"} else ",".join(sorted(got)), parser.loc(fn),
                        f"option typing.{opt} selects {sorted(got)}, not {cls}", f"--python_betterproto_opt=typing.{opt}")
    got = selected([])
    if got == {"DirectImportTypingCompiler()"} or got == {"none"}:
        ctx.proved("Y5", "option[typing default]", parser.loc(fn), ",".join(sorted(got)))
    else:
        ctx.refuted("Y5", "option[typing default]", ",".join(sorted(got)), parser.loc(fn), f"without a typing.* option the compiler is {sorted(got)}")
    if selected(["310", "root"]) == {"raise"}:
        ctx.proved("Y5", "typing-options-exclusive", parser.loc(fn))
    else:
        ctx.refuted("Y5", "typing-options-exclusive", "unchecked", parser.loc(fn), "several typing.* options are not rejected")
    pyd = {}
    for on in (True, False):
        lb2 = {ovar: ("pydantic_dataclasses",) if on else ("x",)}
        if tvar is not None:
            lb2[tvar] = ()
        paths = Interp(parser, local_bindings=lb2).run(fn)
        ctx.count(len(paths))
        pyd[on] = {any(e.kind == "store" and e.data[0][0] == "a" and e.data[0][2] == "pydantic_dataclasses" and e.data[1] == C(True) for e in p.events)
                   for p in paths if p.outcome != "raise" and any(e.kind == "loop" for e in p.events)}
    if pyd[True] == {True} and pyd[False] == {False}:
        ctx.proved("Y5", "option[pydantic_dataclasses]", parser.loc(fn))
    else:
        ctx.refuted("Y5", "option[pydantic_dataclasses]", "no-handler", parser.loc(fn), f"the pydantic_dataclasses option is not handled (set with option: {pyd[True]}, without: {pyd[False]})")
    # pydantic-only template regions do not contain the field line
    tm = template.tmodel(ctx)
    inside = False
    for i in tm.body.find_all(jn.If):
        if "pydantic_dataclasses" in jtext(i.test):
            for c in i.find_all(jn.Call):
                if jtext(c.node).endswith("get_field_string"):
                    inside = True
    if inside:
        ctx.refuted("Y5", "template:field-line-outside-pydantic-conditionals", "inside", T_BODY, "the field definition line is rendered under a pydantic_dataclasses conditional: field numbers/types can differ between the two modes")
    else:
        ctx.proved("Y5", "template:field-line-outside-pydantic-conditionals", T_BODY)
    # one-of compiler selection: the pydantic variant exactly when the output package is in pydantic mode
    from .c03 import field_compiler_paths
    _, rfn, rows = field_compiler_paths(ctx)
    sel = {(pyd, c[0]) for is_map, is_oneof, pyd, c in rows if is_map is False and is_oneof is True and len(c) == 1}
    if sel == {(True, "PydanticOneOfFieldCompiler"), (False, "OneOfFieldCompiler")}:
        ctx.proved("Y5", "oneof-compiler-selection", parser.loc(rfn))
    elif not sel or any(p_ is None for p_, _ in sel):
        ctx.inconclusive("Y5", "oneof-compiler-selection", f"selection not recognised: {sorted(map(str, sel))}", parser.loc(rfn))
    else:
        ctx.refuted("Y5", "oneof-compiler-selection", str(sorted(map(str, sel))), parser.loc(rfn),
                    f"oneof members are compiled by {sorted(map(str, sel))} (pydantic flag, class): the pydantic variant must be used exactly in pydantic mode")


def _union_origin_tests(tree: ast.AST):
    """(function name, node) of tests that recognise an Optional / Union annotation by `get_origin(x) is Union` (or
    `x.__origin__ is Union`) alone: `X | None`, which the typing.310 compiler emits, has origin types.UnionType"""
    out = []
    for fn in ast.walk(tree):
        if not isinstance(fn, (ast.FunctionDef, ast.AsyncFunctionDef)):
            continue
        knows_pep604 = any((isinstance(n, ast.Attribute) and "UnionType" in n.attr) or (isinstance(n, ast.Name) and "UnionType" in n.id) for n in ast.walk(fn))
        for n in ast.walk(fn):
            if isinstance(n, ast.Compare) and len(n.ops) == 1 and isinstance(n.ops[0], (ast.Is, ast.Eq, ast.IsNot, ast.NotEq)):
                sides = [n.left, n.comparators[0]]
                is_union = any((isinstance(x, ast.Name) and x.id == "Union") or (isinstance(x, ast.Attribute) and x.attr == "Union") for x in sides)
                is_origin = any((isinstance(x, ast.Call) and ast.unparse(x.func).split(".")[-1] == "get_origin") or (isinstance(x, ast.Attribute) and x.attr == "__origin__") for x in sides)
                if is_union and is_origin and not knows_pep604:
                    out.append((fn.name, n))
    return out


def rule_Y10(ctx) -> None:
    """the runtime treats the annotations of all three typing modes alike: nothing decides 'is this Optional[...]' by
    comparing the origin with typing.Union only"""
    import pathlib
    from ..src import M_INIT, Module
    ctl = pathlib.Path(__file__).resolve().parent.parent / "controls" / "union_origin.py"
    cm = Module("controls/union_origin.py", ctl)
    flagged = {f for f, _ in _union_origin_tests(cm.tree)}
    if flagged != {"enum_class_of"}:
        raise AnalysisError(f"Y10 positive control: expected exactly `enum_class_of` to be flagged, got {sorted(flagged)}")
    n = 0
    for rel in ("src/betterproto/__init__.py", "src/betterproto/enum.py", "src/betterproto/utils.py"):
        try:
            mod = ctx.repo.mod(rel)
        except Exception:
            continue
        n += 1
        hits = _union_origin_tests(mod.tree)
        if hits:
            fname, node = hits[0]
            ctx.refuted("Y10", f"{rel}:optional-recognised-in-every-typing-mode", f"{fname}:{ast.unparse(node)}", mod.loc(node),
                        f"{fname} recognises an optional annotation by `{ast.unparse(node)}`: the annotations `X | None` emitted under typing.310 have origin types.UnionType on "
                        "Python < 3.14, so code generated in that mode takes the other branch (the union object is used as the class)", "typing.310 + a proto3 optional enum field; to_dict()")
        else:
            ctx.proved("Y10", f"{rel}:optional-recognised-in-every-typing-mode", rel, "no origin test against typing.Union alone")
    ctx.floor("Y10", "runtime modules scanned", n, 2)


def rule_Y6(ctx) -> None:
    """annotation and field arguments consult the same (overridable) `optional` property"""
    models = ctx.repo.mod(M_MODELS)
    ann = models.func("FieldCompiler.annotation")
    args = models.func("FieldCompiler.betterproto_field_args")

    def optional_source(fn) -> Set[str]:
        out = set()
        for n in ast.walk(fn):
            if isinstance(n, ast.If):
                t = ast.unparse(n.test)
                body = " ".join(ast.unparse(b) for b in n.body)
                if "optional" in body.lower() and ("optional" in t or "proto3_optional" in t):
                    out.add(t)
        return out

    a, b = optional_source(ann), optional_source(args)
    if not a or not b:
        # not written as `if self.optional:` blocks: decide by evaluation - with self.optional bound to True / False both results
        # must fold (they consult nothing else that says "optional") and follow it
        from ..absint import Interp
        from ..sym import A, N, show, walk
        from .c03 import field_args_at
        problems, unknown = [], []
        for opt in (True, False):
            got, dep = field_args_at(models, None, opt)
            ctx.count(1)
            if got is None:
                other = [d for d in (dep or []) if "optional" in d.lower()]
                (problems if other else unknown).append(f"with self.optional={opt} the field arguments still depend on {other or dep}")
            elif ("optional=True" in got) != opt:
                problems.append(f"with self.optional={opt} the field arguments are {list(got)}")
        depth: Dict[bool, Dict[Any, int]] = {}
        for opt in (True, False):
            binds = {A(N("self"), "optional"): opt, A(N("self"), "repeated"): False, A(N("self"), "use_builtins"): False, A(N("self"), "wrapped_py_type"): None, A(N("self"), "py_type"): "T"}
            paths = [p for p in Interp(models, bindings=binds, fork_ifexp=True).run(ann) if p.outcome == "return" and p.value is not None]
            ctx.count(len(paths))
            other = sorted({show(k) for p in paths for k in p.valuation if "optional" in show(k).lower()})
            if other:
                problems.append(f"with self.optional={opt} the annotation still depends on {other}")
            # how many Optional wrappers the annotation carries, per combination of the other decisions it takes
            depth[opt] = {frozenset(p.valuation.items()): sum(1 for t in walk(p.value) if t[0] == "call" and t[1][0] == "a" and t[1][2] == "optional") for p in paths}
        if not problems:
            if not depth[True] or set(depth[True]) != set(depth[False]):
                unknown.append("the annotation takes different decisions when self.optional is True and when it is False")
            else:
                for key, d_true in depth[True].items():
                    if d_true != depth[False][key] + 1:
                        problems.append(f"the annotation carries {d_true} Optional wrappers with self.optional=True and {depth[False][key]} with self.optional=False")
                        break
        if problems:
            ctx.refuted("Y6", "annotation~field-args:optional", problems[0][:80], models.loc(args),
                        "annotation and field arguments do not follow the same `optional` property: " + problems[0] + "; subclasses that override `optional` "
                        "(PydanticOneOfFieldCompiler) then produce an Optional annotation without optional=True (or the reverse)", "pydantic_dataclasses + a oneof with an enum member + to_dict()")
        elif unknown:
            ctx.inconclusive("Y6", "annotation~field-args:optional", f"optional tests not recognised: {a} / {b}; {unknown[0]}"[:300], models.loc(args))
        else:
            ctx.proved("Y6", "annotation~field-args:optional", models.loc(args), "evaluated at self.optional = True / False: Optional[...] and optional=True appear together")
        return
    if a == b == {"self.optional"}:
        ctx.proved("Y6", "annotation~field-args:optional", models.loc(args))
    elif not a or not b:
        ctx.inconclusive("Y6", "annotation~field-args:optional", f"optional tests not recognised: {a} / {b}", models.loc(args))
    else:
        ctx.refuted("Y6", "annotation~field-args:optional", f"{sorted(a)}!={sorted(b)}", models.loc(args),
                    f"the annotation is wrapped in Optional[...] when {sorted(a)} but `optional=True` is emitted when {sorted(b)}: subclasses that override `optional` "
                    "(PydanticOneOfFieldCompiler) then produce an Optional annotation without optional=True, and to_dict calls the Optional[...] annotation as if it were the enum class",
                    "pydantic_dataclasses + a oneof with an enum member + to_dict()")


def rule_Y8(ctx) -> None:
    """the validation schema attached to generated enums in pydantic mode admits every enum number (int32, negative included)"""
    n_cfg = 0
    bad = None
    found = 0
    for cfg in template.configs(["plain", "oneof"], pydantic=(True,)):
        text, sp = template.residual(ctx, cfg)
        tree, err = template.parse_residual(text)
        if tree is None:
            continue
        n_cfg += 1
        for cls in [n for n in ast.walk(tree) if isinstance(n, ast.ClassDef)]:
            if not any("Enum" in ast.unparse(b) for b in cls.bases):
                continue
            for fn in [m for m in cls.body if isinstance(m, ast.FunctionDef) and m.name == "__get_pydantic_core_schema__"]:
                for c in [c for c in ast.walk(fn) if isinstance(c, ast.Call) and ast.unparse(c.func).endswith("int_schema")]:
                    found += 1
                    for kw in c.keywords:
                        if kw.arg in ("ge", "gt", "le", "lt", "multiple_of") and isinstance(kw.value, (ast.Constant, ast.UnaryOp)):
                            try:
                                v = ast.literal_eval(kw.value)
                            except Exception:
                                continue
                            if (kw.arg in ("ge", "gt") and v > -2 ** 31 - (kw.arg == "gt")) or (kw.arg in ("le", "lt") and v < 2 ** 31 - 1 + (kw.arg == "lt")) or kw.arg == "multiple_of":
                                bad = (cfg.name, ast.unparse(c))
    ctx.count(n_cfg)
    if n_cfg == 0 or found == 0:
        # no validation schema is attached at all: nothing restricts the numbers
        ctx.proved("Y8", "pydantic-enum-schema:admits-int32", template.T_BODY, "no integer schema attached to enums")
    elif bad:
        ctx.refuted("Y8", "pydantic-enum-schema:admits-int32", bad[1], template.T_BODY,
                    f"in pydantic mode generated enums validate as {bad[1]}: enum numbers are int32 and may be negative, so a message holding such a member cannot be constructed "
                    "(ValidationError) although the standard dataclass accepts it", "enum E { ZERO = 0; NEG = -1; }  M(e=E.NEG) with pydantic_dataclasses")
    else:
        ctx.proved("Y8", "pydantic-enum-schema:admits-int32", template.T_BODY, f"{found} schema calls in {n_cfg} configurations")


def rule_Y9(ctx) -> None:
    """pydantic mode: the template emits `@model_validator` for a message exactly when the header imports it - both are
    keyed on real oneof members (the compiler class whose pydantic variant registers the import), never on the descriptor's
    oneof declarations, which also list the synthetic oneofs of proto3 `optional` fields"""
    models = ctx.repo.mod(M_MODELS)
    body = (ctx.repo.root / T_BODY).read_text()
    uses = [l for l in body.splitlines() if "model_validator" in l]
    if not uses:
        ctx.proved("Y9", "model_validator:use-implies-import", T_BODY, "the template does not use model_validator")
        return
    # the Jinja condition guarding the use
    import re
    i = body.index(uses[0])
    conds = re.findall(r"{%-?\s*if\s+(.*?)\s*-?%}", body[:i])
    cond = conds[-1] if conds else ""
    props = re.findall(r"message\.(\w+)", cond)
    reg = models.func("PydanticOneOfFieldCompiler.pydantic_imports")
    registers = any(isinstance(n, ast.Constant) and n.value == "model_validator" for n in ast.walk(reg))
    ctx.analysed("PydanticOneOfFieldCompiler.pydantic_imports")
    if not registers or not props:
        ctx.inconclusive("Y9", "model_validator:use-implies-import", f"guard `{cond}` / registration not recognised", T_BODY)
        return
    for pr in props:
        fn = models.func(f"MessageCompiler.{pr}")
        ctx.analysed(f"MessageCompiler.{pr}")
        src = ast.unparse(fn)
        by_class = any(isinstance(c, ast.Call) and ast.unparse(c.func) == "isinstance" and len(c.args) == 2 and "OneOfFieldCompiler" in ast.unparse(c.args[1]) for c in ast.walk(fn))
        by_descriptor = "oneof_decl" in src or "oneof_index" in src
        if by_class and not by_descriptor:
            ctx.proved("Y9", "model_validator:use-implies-import", models.loc(fn), f"`{cond}`: {pr} tests for OneOfFieldCompiler members; PydanticOneOfFieldCompiler registers the import")
        elif by_descriptor:
            ctx.refuted("Y9", "model_validator:use-implies-import", f"{pr}:descriptor-oneofs", models.loc(fn),
                        f"the template emits @model_validator when message.{pr}, which now looks at the descriptor's oneof declarations; those include the synthetic oneof of every proto3 "
                        "`optional` field, for which no PydanticOneOfFieldCompiler exists and so nothing registers `from pydantic import model_validator`: NameError on import",
                        "pydantic_dataclasses + a package whose only oneofs are proto3 optional fields")
        else:
            ctx.inconclusive("Y9", "model_validator:use-implies-import", f"{pr} not recognised: {src[:120]}", models.loc(fn))


def rule_Y11(ctx) -> None:
    """what the pydantic variants add to an enum class only tells pydantic that the field holds an integer: the core schema is
    the plain int schema - no validator that runs the closed member lookup `cls(number)` (enums are open: a number without a
    member is a legal value in every configuration), no bound that excludes numbers an int32 enum can take"""
    from .template import configs, residual, parse_residual
    for comp in ("direct", "root", "310"):
        cfg = next(configs(["plain"], compilers=(comp,), pydantic=(True,), streaming=[(False, False)]))
        text, _ = residual(ctx, cfg)
        tree, err = parse_residual(text)
        name = f"enum-core-schema:open[typing.{comp},pydantic]"
        if tree is None:
            ctx.inconclusive("Y11", name, f"residual module does not parse: {err}", T_BODY)
            continue
        ctx.count(1)
        enum = next((c for c in tree.body if isinstance(c, ast.ClassDef) and any("Enum" in ast.unparse(b) for b in c.bases)), None)
        fn = next((f for f in (enum.body if enum else []) if isinstance(f, ast.FunctionDef) and f.name == "__get_pydantic_core_schema__"), None)
        if fn is None:
            ctx.proved("Y11", name, T_BODY, "no core schema hook: pydantic treats the member as the int it is")
            continue
        rets = [r.value for r in ast.walk(fn) if isinstance(r, ast.Return) and r.value is not None]
        cls_name = fn.args.args[0].arg if fn.args.args else "cls"
        bad = None
        for r in rets:
            for c in ast.walk(r):
                if isinstance(c, ast.Call):
                    if any(isinstance(a, ast.Name) and a.id == cls_name for a in c.args) or any(isinstance(k.value, ast.Name) and k.value.id == cls_name for k in c.keywords):
                        bad = bad or f"`{ast.unparse(c)[:90]}` passes the enum class itself as a validator: `{cls_name}(number)` is the closed lookup and raises for a number without a member"
                    if ast.unparse(c.func).endswith("int_schema"):
                        for k in c.keywords:
                            if k.arg in ("ge", "gt", "le", "lt", "multiple_of"):
                                try:
                                    v = ast.literal_eval(k.value)
                                except Exception:
                                    v = None
                                lo_ok = k.arg in ("ge", "gt") and isinstance(v, int) and v <= -(1 << 31) - (1 if k.arg == "gt" else 0)
                                hi_ok = k.arg in ("le", "lt") and isinstance(v, int) and v >= (1 << 31) - 1 + (1 if k.arg == "lt" else 0)
                                if not (lo_ok or hi_ok):
                                    bad = bad or f"`{ast.unparse(c)}` restricts the number with {k.arg}={ast.unparse(k.value)}: enum numbers range over all of int32 (negative ones included)"
        if bad:
            ctx.refuted("Y11", name, "closed-or-bounded", T_BODY, f"under pydantic_dataclasses the generated enum's core schema {bad}; the standard-dataclass variants accept that number and encode it, "
                        "so the configurations no longer behave alike", "Msg(status=7) where Status has no member 7")
        elif not rets:
            ctx.inconclusive("Y11", name, "__get_pydantic_core_schema__ has no return", T_BODY)
        else:
            ctx.proved("Y11", name, T_BODY, ast.unparse(rets[0])[:60])


def rule_Y12(ctx, rule: str = "Y12") -> None:
    """whatever the typing compiler in force makes of a Timestamp / Duration annotation, the module imports the name it uses:
    FieldCompiler.datetime_imports, evaluated by constant propagation at every annotation shape (plain, optional, repeated, map
    value) that each of the three typing compilers produces for `datetime` and `timedelta`, contains that name.  The shapes
    are the folded results of the compilers' own methods (the PEP 604 compiler quotes its unions: '"datetime | None"')"""
    from .. import concrete
    from ..absint import Interp
    from ..sym import A, C, N, show
    mod = ctx.repo.mod(M_MODELS)
    fn = mod.func("FieldCompiler.datetime_imports")
    ctx.analysed("FieldCompiler.datetime_imports")
    shapes = TypingShapes(ctx.repo)
    n = 0
    # a map field's key / value types are taken from helper compilers (FieldCompiler(parent=<the map field>, ..)) that
    # MapEntryCompiler constructs: whether such a helper records its own imports is read off FieldCompiler.__post_init__
    # (its parent is a FieldCompiler - the map field - which is what an isinstance test there can see)
    helper_records = False
    mp = mod.func("MapEntryCompiler.__post_init__") if mod.has("MapEntryCompiler.__post_init__") else None
    builds_helpers = mp is not None and any(isinstance(c_, ast.Call) and ast.unparse(c_.func) == "FieldCompiler" and any(k_.arg == "parent" and ast.unparse(k_.value) == "self" for k_ in c_.keywords)
                                            for c_ in ast.walk(mp))
    helper_unknown = None
    if builds_helpers and mod.has("FieldCompiler.__post_init__"):
        pi = mod.func("FieldCompiler.__post_init__")
        ctx.analysed("FieldCompiler.__post_init__")
        for p_ in Interp(mod, fork_ifexp=True).run(pi):
            feasible = True
            for k_, v_ in p_.valuation.items():
                t_ = show(k_)
                if t_ in ("isinstance(self.parent, FieldCompiler)", "isinstance(self.parent, MapEntryCompiler)"):
                    feasible = feasible and v_ is True
                elif t_ in ("isinstance(self.parent, MessageCompiler)", "isinstance(self.parent, ProtoContentBase)"):
                    feasible = feasible and v_ is True
                else:
                    helper_unknown = helper_unknown or t_
            if feasible and any(e.kind == "call" and show(e.data[1]).endswith("add_imports_to") for e in p_.events):
                helper_records = True
    for comp in TypingShapes.COMPILERS:
        bad = unknown = None
        for base in ("datetime", "timedelta"):
            anns = [("plain", base), ("optional", shapes.apply(comp, "optional", [base])[0]), ("repeated", shapes.apply(comp, "list", [base])[0]),
                    ("map value", shapes.apply(comp, "dict", ["str", base])[0])]
            anns = [(w_, a_, (base if w_ != "map value" else "OwnerMapFieldEntry")) for w_, a_ in anns]
            if helper_records:
                anns.append(("map value (helper)", base, base))
            got_map = {}
            for what, ann, pyt in anns:
                paths = [p for p in Interp(mod, bindings={A(N("self"), "annotation"): ann, A(N("self"), "py_type"): pyt}, fork_ifexp=True).run(fn) if p.outcome == "return" and p.value is not None]
                ctx.count(len(paths))
                n += 1
                if len(paths) != 1:
                    unknown = unknown or f"{ann!r}: {len(paths)} returning paths (the membership tests do not fold)"
                    continue
                p = paths[0]
                v = p.value
                got = None
                if v[0] == "call" and show(v[1]) in ("set", "builtins.set") and not v[2]:
                    # the local set that the function fills: its members are the constants added on this path
                    got = set()
                    for e in p.events:
                        if e.kind == "call" and e.data[1][0] == "a" and e.data[1][1] == v and e.data[1][2] in ("add", "update"):
                            try:
                                x = concrete.ev(e.data[2][0], {})
                            except concrete.Unknown as exc:
                                unknown = unknown or f"{ann!r}: {exc}"
                                got = None
                                break
                            got |= {x} if e.data[1][2] == "add" else set(x)
                else:
                    try:
                        got = concrete.ev(v, {})
                    except concrete.Unknown as exc:
                        unknown = unknown or f"{ann!r}: result {show(v)[:80]} not evaluable ({exc})"
                if got is None:
                    continue
                try:
                    has = base in got
                except TypeError:
                    unknown = unknown or f"{ann!r}: result {got!r} is not a container"
                    continue
                if what.startswith("map value"):
                    # the module imports what the map field itself and (when it records imports) its value helper ask for
                    got_map[what] = (has, ann, got)
                    continue
                if not has:
                    bad = bad or (what, base, ann, got)
            if got_map and len(got_map) == (2 if helper_records else 1) and not any(h_ for h_, _, _ in got_map.values()):
                if helper_unknown and not helper_records:
                    unknown = unknown or f"map value: whether the value helper records its imports depends on {helper_unknown}"
                else:
                    _, ann_, got_ = got_map["map value"]
                    bad = bad or ("map value", base, ann_, got_)
        name = f"datetime-imports:cover-annotation-shapes[typing.{comp}]"
        if bad:
            what, base, ann, got = bad
            ctx.refuted(rule, name, f"{ann}->{sorted(got)}", mod.loc(fn), f"for the {what} annotation {ann!r} (typing.{comp}) datetime_imports yields {sorted(got)!r}: `{base}` is not imported although the "
                        "annotation (and, for an optional field, its default) names it, so the generated module fails when its type hints are resolved", f"an optional google.protobuf.{'Timestamp' if base == 'datetime' else 'Duration'} field, typing.{comp}")
        elif unknown:
            ctx.inconclusive(rule, name, unknown[:300], mod.loc(fn))
        else:
            ctx.proved(rule, name, mod.loc(fn), "plain / optional / repeated / map value x datetime / timedelta")
    ctx.floor(rule, "annotation shapes evaluated", n, 24)
    ctx.notes.append(f"Y12: map value helpers record their own imports: {helper_records}")


def rule_Y13(ctx, rule: str = "Y13") -> None:
    """the oneof validator that only the pydantic variants run judges every group by its own members: what it collects per group
    (the names of the members that are set) starts empty for each group - collected in a list bound once above the loop, the
    second group is judged together with the first and a message with one member set in each of two groups is rejected under
    pydantic_dataclasses while the standard dataclass builds it"""
    from ..src import M_INIT
    from .c09 import stale_scratch_locals
    mod = ctx.repo.mod(M_INIT)
    name = "_validate_field_groups:per-group-state-fresh"
    if not mod.has("Message._validate_field_groups"):
        ctx.inconclusive(rule, name, "Message._validate_field_groups not found", M_INIT)
        return
    fn = mod.func("Message._validate_field_groups")
    ctx.analysed("Message._validate_field_groups")
    loops = [lp for lp in fn.body if isinstance(lp, ast.For)] or [lp for lp in ast.walk(fn) if isinstance(lp, ast.For)]
    if not loops:
        ctx.proved(rule, name, mod.loc(fn), "no loop over the groups in this function")
        return
    ctx.count(len(loops))
    stale, both = stale_scratch_locals(fn, loops[0])
    if stale:
        v, use = stale[0]
        ctx.refuted(rule, name, v, mod.loc(use), f"`{v}` is filled and read inside the loop over the oneof groups but bound only above it: the members found set in one group are "
                    "still in it when the next group is judged, so two groups with one member each look like one group with two",
                    "pydantic_dataclasses; message with oneof a {x} and oneof b {y}; M(x=1, y=2) raises ValidationError")
    else:
        ctx.proved(rule, name, mod.loc(loops[0]), f"in-place locals read in the loop: {both or 'none'}, each bound inside it")


def rule_Y14(ctx, rule: str = "Y14") -> None:
    """what the constructor records about the values it is given does not depend on __init__ going through __setattr__: the
    generated __init__ of a standard dataclass assigns every argument (Message.__setattr__ runs), the one of a pydantic
    dataclass stores the validated arguments directly.  Whatever __setattr__ records *on the assigned value* (the presence
    flag of a field-less message) therefore has to be recorded by __post_init__ as well, or equal constructor calls encode
    differently in the two dataclass modes"""
    from ..src import M_INIT
    mod = ctx.repo.mod(M_INIT)
    sa = mod.func("Message.__setattr__")
    pi = mod.func("Message.__post_init__")
    ctx.analysed("Message.__setattr__", "Message.__post_init__")
    vparam = sa.args.args[2].arg if len(sa.args.args) > 2 else "value"

    def value_flag_stores(fn, exclude=("self",)):
        out = []
        for n in ast.walk(fn):
            if isinstance(n, ast.Assign):
                for t in n.targets:
                    if isinstance(t, ast.Attribute) and isinstance(t.value, ast.Name) and t.value.id not in exclude and t.attr.startswith("_"):
                        out.append((t.value.id, t.attr, n))
        return out

    on_value = [(b, a, n) for b, a, n in value_flag_stores(sa) if b == vparam]
    ctx.count(len(on_value) + 1)
    name = "__post_init__:records-what-__setattr__-records-on-values"
    if not on_value:
        ctx.proved(rule, name, mod.loc(sa), "__setattr__ records nothing on the assigned value")
        return
    attrs = {a for _, a, _ in on_value}
    in_pi = {a for _, a, _ in value_flag_stores(pi)}
    # a helper both call counts too
    helpers = {ast.unparse(c.func) for c in ast.walk(sa) if isinstance(c, ast.Call)} & {ast.unparse(c.func) for c in ast.walk(pi) if isinstance(c, ast.Call)}
    shared = any(h.startswith("self._") or h.startswith("_") for h in helpers if "raw_get" not in h and "betterproto" not in h)
    missing = sorted(attrs - in_pi)
    if missing and not shared:
        b, a, n = next(x for x in on_value if x[1] in missing)
        ctx.refuted(rule, name, ",".join(missing), mod.loc(n), f"Message.__setattr__ records `{ast.unparse(n)}` on the value being assigned, Message.__post_init__ records nothing of the kind for "
                    "the values the constructor was given: under pydantic_dataclasses (whose __init__ does not assign through __setattr__) a field-less child passed to the constructor "
                    "is not marked present, M(e=Empty()) encodes to b'' there and to 0a00 with the standard dataclasses", "pydantic_dataclasses: bytes(M(e=Empty())) vs the standard dataclass")
    else:
        ctx.proved(rule, name, mod.loc(pi), f"__post_init__ records {sorted(attrs)} on the given values as __setattr__ does")


def run(ctx) -> None:
    ctx.rules_run.append("Y14")
    rule_Y14(ctx)
    from . import jsonrules as _jr
    ctx.rules_run.append("J10")
    _jr.rule_J10(ctx)           # enum map values are rendered alike whether held as members (standard) or ints (pydantic)
    from . import presence as _presence
    ctx.rules_run.append("O8")
    _presence.rule_O8(ctx)      # pydantic-style oneof members (optional=True with a group) are members of their group
    ctx.rules_run.append("Y13")
    rule_Y13(ctx)
    ctx.rules_run.append("Y12")
    rule_Y12(ctx)
    ctx.rules_run.append("X1")
    template.rule_X1(ctx)       # "imports without error": the import lines of rpc-only types are emitted after the stub has registered them
    ctx.rules_run += ["Y1", "Y2", "Y3", "Y4", "Y5", "Y6", "P3(pydantic)", "Y11"]
    rule_Y11(ctx)
    template.rule_Y1(ctx, full=ctx.tier == "thorough")
    template.rule_Y2(ctx)
    template.rule_Y2iii(ctx)
    rule_Y3(ctx)
    rule_Y4(ctx)
    rule_Y5(ctx)
    rule_Y6(ctx)
    ctx.rules_run.append("Y8")
    rule_Y8(ctx)
    ctx.rules_run.append("Y9")
    rule_Y9(ctx)
    ctx.rules_run.append("Y10")
    rule_Y10(ctx)
    from .c03 import rule_P11, rule_P9
    ctx.rules_run.append("P11")
    rule_P11(ctx)             # user comments cannot break the generated module
    from .c03 import rule_P11b
    rule_P11b(ctx)
    ctx.rules_run.append("P9")
    rule_P9(ctx)              # typing imports are recorded on the compiler instance the header renders
    rule_P3(ctx, "pydantic")
    from . import presence
    ctx.rules_run.append("D1")
    from . import phases
    ctx.rules_run.append("Y7")
    phases.rule_Y7(ctx)       # import decisions are not stale snapshots; all annotation producers handle shadowed builtins
    presence.rule_D1(ctx)     # the pydantic mode declares every oneof member optional=True: the runtime's unset/selection logic must cope with that
