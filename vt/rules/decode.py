"""Decoder rules shared by C08 (U1-U4), C10 (S1-S4), C16 (N3), C17 (M1-M5)."""
from __future__ import annotations

import ast
from typing import Any, Dict, List, Optional, Set, Tuple

from ..absint import Interp, Path
from ..cfg import CFG, Node, normal_edge, own_nodes
from ..fieldloop import val_text
from ..src import AnalysisError, M_INIT, Module, fold, _Unfoldable
from ..sym import A, C, N, OP, Sym, dotted, from_ast, show, simplify, subst, walk, contains

VALID_WIRE = (0, 1, 2, 5)
GROUP_WIRE = (3, 4)
INVALID_WIRE = (6, 7)


# ---------------------------------------------------------------------------
# generic: stream reads and their length guards


def _names_loaded(node: ast.AST) -> Set[str]:
    return {n.id for n in own_nodes(node) if isinstance(n, ast.Name) and isinstance(n.ctx, ast.Load)}


def _names_stored(node: ast.AST) -> Set[str]:
    out = set()
    for n in own_nodes(node):
        if isinstance(n, ast.Name) and isinstance(n.ctx, ast.Store):
            out.add(n.id)
    return out


def _read_call(v: ast.AST) -> Optional[ast.Call]:
    if isinstance(v, ast.Call) and isinstance(v.func, ast.Attribute) and v.func.attr == "read" and len(v.args) == 1:
        return v
    if isinstance(v, ast.BoolOp) and isinstance(v.op, ast.Or):
        # `already_read or stream.read(N)`: the result can only be short/empty through the read
        return _read_call(v.values[-1])
    return None


def _read_sites(fn: ast.AST) -> List[Tuple[ast.Assign, str, ast.AST]]:
    """assignments `X = <stream>.read(N)` (or `X = given or <stream>.read(N)`) -> (stmt, X, N-expression)"""
    out = []
    for st in ast.walk(fn):
        if isinstance(st, ast.Assign) and len(st.targets) == 1 and isinstance(st.targets[0], ast.Name):
            c = _read_call(st.value)
            if c is not None:
                out.append((st, st.targets[0].id, c.args[0]))
    return out


def _short_polarity(test: ast.AST, var: str, nexpr: ast.AST, consts: Dict[str, Any]) -> Optional[bool]:
    """If `test` is a recognised length test of `var` against the requested size,
    return the truth value of the test on a SHORT read; else None."""
    ntext = ast.unparse(nexpr)
    try:
        nconst = fold(nexpr, consts)
    except _Unfoldable:
        nconst = None

    def res(nm: str):
        return None

    t = simplify(from_ast(test))
    neg = False
    while t[0] == "op" and t[1] == "not":
        neg = not neg
        t = t[2]
    ln = ("call", N("len"), (N(var),), ())
    nsym = simplify(from_ast(nexpr))
    val: Optional[bool] = None
    if t == N(var) and nconst == 1:
        val = False            # truthy(var) is False on an empty (short) read of 1 byte
    elif t[0] == "op" and t[1] == "==" and t[2] == ln and t[3] == nsym:
        val = False            # len(var) == N is False when short
    elif t[0] == "op" and t[1] == "==" and t[2] == nsym and t[3] == ln:
        val = False
    elif t[0] == "op" and t[1] == "<" and t[2] == ln and t[3] == nsym:
        val = True             # len(var) < N is True when short
    elif t[0] == "op" and t[1] == "<" and t[2] == nsym and t[3] == ln:
        return None            # N < len(var): never true for a read(N); not a short test
    elif t[0] == "op" and t[1] == "==" and t[2] == ln and t[3] == C(0) and nconst == 1:
        val = True
    elif t[0] == "op" and t[1] == "==" and t[2] == N(var) and t[3] == C(b"") and nconst == 1:
        val = True
    elif t == ln and nconst == 1:
        val = False
    if val is None:
        return None
    return (not val) if neg else val


def read_guards(mod: Module, fn: ast.AST) -> List[Dict[str, Any]]:
    """For every `X = stream.read(N)`: is every use of X preceded, on every path,
    by a length test whose short branch raises?"""
    g = CFG(fn, implicit_exc=False)
    out = []
    for st, var, nexpr in _read_sites(fn):
        rnodes = g.nodes_for(st)
        rec: Dict[str, Any] = {"var": var, "line": st.lineno, "n": ast.unparse(nexpr), "guarded": False, "why": "", "exc": set(), "stmt": st}
        # candidate guards: test nodes whose condition is a recognised short test of var
        guards: Dict[int, bool] = {}
        for nd in g.nodes:
            if nd.kind == "test" and isinstance(nd.stmt, ast.If):
                pol = _short_polarity(nd.stmt.test, var, nexpr, mod.consts)
                if pol is not None:
                    guards[nd.id] = pol
        ok = True
        why = ""
        for rn in rnodes:
            # region of this read: nodes reachable before var is re-assigned
            kills = {nd.id for nd in g.nodes if nd.stmt is not None and nd.kind in ("stmt", "loop") and nd.id != rn.id and var in _names_stored(nd.stmt)} | {rn.id}
            region = g.reach_from_successors(rn.id, avoid=kills, labels=normal_edge)
            uses = [g.nodes[i] for i in region if g.nodes[i].stmt is not None and g.nodes[i].kind in ("stmt", "test", "loop")
                    and var in _names_loaded(g.nodes[i].stmt) and i not in guards and not isinstance(g.nodes[i].stmt, ast.Raise)]
            if not uses:
                continue
            gset = set(guards) & region
            for u in uses:
                if not g.must_pass(rn.id, u.id, gset | kills - {u.id}, labels=normal_edge) or not gset:
                    ok = False
                    why = f"use at line {u.line} reachable without a length test of `{var}` against {rec['n']}"
                    break
            if not ok:
                break
            # the short branch of each guard must end in raise without using var / yielding / returning
            for gid in gset:
                short_label = "true" if guards[gid] else "false"
                starts = [m for m, lab in g.succ[gid] if lab == short_label]
                reach = g.reachable(starts, avoid=kills, labels=normal_edge)
                bad = [g.nodes[i] for i in reach if i == g.exit.id or (g.nodes[i].stmt is not None and g.nodes[i].kind == "stmt" and not isinstance(g.nodes[i].stmt, ast.Raise) and (
                    var in _names_loaded(g.nodes[i].stmt) or any(isinstance(x, (ast.Yield, ast.YieldFrom)) for x in own_nodes(g.nodes[i].stmt))))]
                # nodes after which the loop continues with the next read are fine only if they raise first
                leaves_loop = any(i in kills for i in g.reachable(starts, labels=normal_edge) if i != gid) and False
                raises = [g.nodes[i] for i in reach if isinstance(g.nodes[i].stmt, ast.Raise)]
                if bad or not raises:
                    ok = False
                    why = f"short-read branch of the test at line {g.nodes[gid].line} does not raise"
                    break
                # does any path from the short branch escape without raising (falls back into the loop)?
                esc = g.reachable(starts, avoid={r.id for r in raises}, labels=normal_edge)
                if g.exit.id in esc or any(k in esc for k in kills):
                    ok = False
                    why = f"short-read branch of the test at line {g.nodes[gid].line} can continue without raising"
                    break
                for r in raises:
                    e = r.stmt.exc  # type: ignore[union-attr]
                    if e is not None:
                        rec["exc"].add(ast.unparse(e.func if isinstance(e, ast.Call) else e))
            if not ok:
                break
        rec["guarded"] = ok
        rec["why"] = why
        out.append(rec)
    return out


_exact_cache: Dict[int, Dict[str, int]] = {}


def exact_readers(mod: Module) -> Dict[str, int]:
    """module-level helpers whose summary is "returns exactly N bytes read from the stream or raises":
    name -> index of the size parameter"""
    key = id(mod)
    if key in _exact_cache:
        return _exact_cache[key]
    out: Dict[str, int] = {}
    for q, fn in mod.functions():
        if "." in q or not isinstance(fn, ast.FunctionDef):
            continue
        sites = _read_sites(fn)
        if len(sites) != 1:
            continue
        st, var, nexpr = sites[0]
        params = [a.arg for a in fn.args.args]
        if not isinstance(nexpr, ast.Name) or nexpr.id not in params:
            continue
        rets = [n for n in ast.walk(fn) if isinstance(n, ast.Return)]
        if not rets or not all(isinstance(r.value, ast.Name) and r.value.id == var for r in rets):
            continue
        g = read_guards(mod, fn)
        if g and all(r["guarded"] for r in g):
            out[q] = params.index(nexpr.id)
    _exact_cache[key] = out
    return out


def slice_sites(fn: ast.AST) -> List[Tuple[ast.stmt, ast.Subscript]]:
    """payload slices value[i : i + N] / value[i : j] taken from a buffer inside a decode loop"""
    out = []
    for st in ast.walk(fn):
        if isinstance(st, (ast.Assign, ast.AugAssign, ast.Expr)):
            for n in own_nodes(st):
                if isinstance(n, ast.Subscript) and isinstance(n.slice, ast.Slice) and n.slice.lower is not None and n.slice.upper is not None \
                        and isinstance(n.ctx, ast.Load):
                    out.append((st, n))
    return out


# ---------------------------------------------------------------------------
# M1 - wire-type dispatch exhaustive over 0..7


def _reader_paths(ctx, mod: Module, qual: str, w: int, **kw) -> List[Path]:
    from .codec import register_helpers, wire_type_local

    fn = mod.func(qual)
    register_helpers(mod)
    wt = wire_type_local(fn)
    paths = Interp(mod, local_bindings={wt: w}, fresh_calls=["read", "load_varint", "decode_varint"] + list(exact_readers(mod)), **kw).run(fn)
    ctx.count(len(paths))
    return paths


def _yield_value(e) -> Optional[Sym]:
    y = e.data
    if y[0] == "call":
        for k, v in y[3]:
            if k == "value":
                return v
        if len(y[2]) >= 3:
            return y[2][2]
    return None


def rule_M1(ctx) -> None:
    mod = ctx.repo.mod(M_INIT)
    for q in ("load_fields", "parse_fields"):
        fn = mod.func(q)
        ctx.analysed(q)
        for w in range(8):
            paths = _reader_paths(ctx, mod, q, w)
            outcomes = set()
            for p in paths:
                ys = [e for e in p.events if e.kind == "yield"]
                if ys:
                    v = _yield_value(ys[0])
                    consuming = [e for e in p.events if e.kind == "call" and e.depth == 0 and (dotted(e.data[1]).endswith(".read") or dotted(e.data[1]) in ("load_varint", "decode_varint") or dotted(e.data[1]) in exact_readers(mod))]
                    if w in GROUP_WIRE and v is not None and v[0] == "c" and len(consuming) <= 2 and q == "load_fields":
                        outcomes.add("yield:constant")
                    elif w in GROUP_WIRE and v is not None and v[0] == "c":
                        outcomes.add("yield:constant")
                    else:
                        outcomes.add("yield:None" if v == C(None) else "yield:payload")
                elif p.outcome == "raise":
                    outcomes.add("raise")
                else:
                    outcomes.add("end")
            outcomes.discard("end")  # clean end of input at the tag
            if w in VALID_WIRE:
                if outcomes <= {"yield:payload", "raise"} and "yield:payload" in outcomes:
                    ctx.proved("M1", f"{q}:wire[{w}]", mod.loc(fn))
                else:
                    ctx.refuted("M1", f"{q}:wire[{w}]", ",".join(sorted(outcomes)), mod.loc(fn), f"valid wire type {w} is not decoded into a payload: {sorted(outcomes)}")
            else:
                if "yield:constant" in outcomes and "yield:None" not in outcomes:
                    ctx.refuted("M1", f"{q}:wire[{w}]", "group-marker-accepted", mod.loc(fn),
                                f"a {'START' if w == 3 else 'END'}_GROUP tag (wire type {w}) is accepted as a payload-less field without skipping the group: the members of a proto2 group are then parsed "
                                "as fields of the enclosing message and can overwrite known fields; unbalanced markers are accepted",
                                "M().parse(b'\\x08\\x05\\x1b\\x08\\x07\\x1c')  # field 1 inside a group overwrites field 1")
                elif "yield:None" in outcomes or (w in INVALID_WIRE and "yield:payload" in outcomes):
                    ctx.refuted("M1", f"{q}:wire[{w}]", ",".join(sorted(outcomes)), mod.loc(fn),
                                f"wire type {w} is not handled by the dispatch chain: the field is yielded with no payload (value None) instead of being rejected",
                                f"M().parse(bytes([(1 << 3) | {w}]) + b'\\x00')")
                elif outcomes == {"raise"}:
                    ctx.proved("M1", f"{q}:wire[{w}]", mod.loc(fn), "rejected")
                elif w in GROUP_WIRE and outcomes <= {"yield:payload", "raise"}:
                    ctx.inconclusive("M1", f"{q}:wire[{w}]", "group wire type yields a payload; group skipping is not modelled", mod.loc(fn))
                else:
                    ctx.inconclusive("M1", f"{q}:wire[{w}]", f"outcomes {sorted(outcomes)}", mod.loc(fn))


# ---------------------------------------------------------------------------
# M2 - field number 0 is rejected


def rule_M2(ctx) -> None:
    from .codec import field_number_local, wire_type_local

    mod = ctx.repo.mod(M_INIT)
    found_in = None
    for q in ("load_fields", "Message.load"):
        fn = mod.func(q)
        for n in ast.walk(fn):
            if isinstance(n, ast.If) and any(isinstance(b, ast.Raise) for b in ast.walk(ast.Module(body=n.body, type_ignores=[]))):
                t = simplify(from_ast(n.test))
                txt = show(t)
                if ("number" in txt) and _rejects_zero(t):
                    found_in = (q, n)
    lf = mod.func("load_fields")
    if found_in is None:
        ctx.refuted("M2", "field-number-0", "no-test", mod.loc(lf),
                    "neither load_fields nor Message.load tests the decoded field number against 0 before using it; tag 0x00.. is accepted",
                    "M().parse(b'\\x00\\x05')")
        return
    q, n = found_in
    # the test must lie on every path from the tag decode to the yield / field lookup
    fn = mod.func(q)
    g = CFG(fn, implicit_exc=False)
    tests = {nd.id for nd in g.nodes_for(n) if nd.kind == "test"}
    if q == "load_fields":
        targets = [nd for nd in g.nodes if nd.stmt is not None and nd.kind == "stmt" and any(isinstance(x, ast.Yield) for x in own_nodes(nd.stmt))]
        heads = [nd for nd in g.nodes if nd.kind == "loop"]
    else:
        targets = [nd for nd in g.nodes if nd.stmt is not None and nd.kind == "stmt" and "field_name_by_number" in ast.unparse(nd.stmt)]
        heads = [nd for nd in g.nodes if nd.kind == "loop" and "load_fields" in ast.unparse(nd.stmt.iter if isinstance(nd.stmt, ast.For) else nd.stmt)]
    ok = bool(targets) and bool(heads) and all(g.must_pass(h.id, t.id, tests, labels=normal_edge) for h in heads[:1] for t in targets)
    if ok:
        ctx.proved("M2", "field-number-0", mod.loc(n), f"tested in {q}")
    else:
        ctx.refuted("M2", "field-number-0", "bypassable", mod.loc(n), f"the field-number test in {q} does not lie on every path to the use of the field")


def rule_M2b(ctx, rule: str = "M2") -> None:
    """the tag readers evaluated on concrete tags: every tag with field number 0 is rejected before anything is yielded,
    and the boundary field numbers 1 and 2**29-1 are accepted (partial evaluation of load_fields / parse_fields with the
    decoded tag bound to a constant; small helpers are inlined)"""
    mod = ctx.repo.mod(M_INIT)
    for q in ("load_fields", "parse_fields"):
        fn = mod.func(q)
        inline = {}
        for c in ast.walk(fn):
            if isinstance(c, ast.Call) and isinstance(c.func, ast.Name) and c.func.id.startswith("_") and mod.has(c.func.id):
                h = mod.func(c.func.id)
                if len(h.body) <= 8 and not any(isinstance(n, (ast.For, ast.While)) for n in ast.walk(h)) and not any("read" in ast.unparse(n) for n in ast.walk(h) if isinstance(n, ast.Call)):
                    inline[c.func.id] = (mod, h)
        first = Interp(mod, inline=inline).run(fn)
        tag = None
        for p in first:
            for e in p.events:
                if e.kind == "call" and dotted(e.data[1]).endswith("varint") and e.loops:
                    tag = ("item", e.data, 0)
                    break
            if tag:
                break
        if tag is None:
            ctx.inconclusive(rule, f"{q}:tag-evaluation", "tag read not recognised", mod.loc(fn))
            continue
        bad = None
        n = 0
        for number, must_reject in ((0, True), (1, False), (2 ** 29 - 2, False), (2 ** 29 - 1, False)):
            for w in (0, 1, 2, 5):
                value = (number << 3) | w
                paths = Interp(mod, bindings={tag: value}, inline=inline).run(fn)
                ctx.count(len(paths))
                n += 1
                # paths on which the tag was actually read (the clean end-of-input path does not read one)
                rel = [p for p in paths if any(e.kind == "call" and e.data == tag[1] for e in p.events)]
                yields = [p for p in rel if any(e.kind == "yield" for e in p.events)]
                raises_on_number = [p for p in rel if p.outcome == "raise" and not any(e.kind == "yield" for e in p.events)
                                    and not any(e.kind == "call" and e.depth == 0 and ("read" in dotted(e.data[1]) or dotted(e.data[1]).endswith("varint")) and e.data != tag[1] for e in p.events)]
                if must_reject and yields:
                    bad = (number, w, "accepted", yields[0])
                if not must_reject and raises_on_number and not yields:
                    bad = (number, w, "rejected", raises_on_number[0])
        name = f"{q}:tag-evaluation"
        if bad:
            number, w, what, p = bad
            if what == "accepted":
                ctx.refuted(rule, name, f"number=0,wire={w}", mod.loc(fn),
                            f"{q} yields a field for the tag {(number << 3) | w} (field number 0, wire type {w}): only the all-zero tag is rejected, other occurrences of the invalid number 0 "
                            "end up in the unknown fields and are re-emitted", "M().parse(b'\\x02\\x00')")
            else:
                ctx.refuted(rule, name, f"number={number},wire={w}", mod.loc(fn),
                            f"{q} rejects the tag of field number {number} (wire type {w}) although every number in 1 .. 2**29-1 is legal: data written with a schema that uses it "
                            "cannot be read", "a field numbered 536870911")
        else:
            ctx.proved(rule, name, mod.loc(fn), f"{n} (number, wire type) pairs evaluated")


def _rejects_zero(t: Sym) -> bool:
    """test is true when <number> is 0"""
    neg = False
    while t[0] == "op" and t[1] == "not":
        neg = not neg
        t = t[2]
    val = None
    if t[0] == "op" and t[1] == "==" and t[3] == C(0):
        val = True
    elif t[0] == "op" and t[1] == "<" and t[3][0] == "c" and isinstance(t[3][1], int) and t[3][1] == 1:
        val = True       # number < 1
    elif t[0] == "op" and t[1] == "<" and t[2] == C(0):
        val = False      # 0 < number
    elif t[0] in ("n", "a", "item"):
        val = False      # truthy(number)
    if val is None:
        return False
    return (not val) if neg else val


# ---------------------------------------------------------------------------
# M3 - payload reads are length-checked


def rule_M3(ctx) -> None:
    mod = ctx.repo.mod(M_INIT)
    lf = mod.func("load_fields")
    # single-byte reads are tag / varint bytes: their end-of-input discipline is decided by N3 and M3b
    res = [r for r in read_guards(mod, lf) if r["n"] != "1"]
    helpers = exact_readers(mod)
    hcalls = [c for c in ast.walk(lf) if isinstance(c, ast.Call) and isinstance(c.func, ast.Name) and c.func.id in helpers]
    for c in hcalls:
        ctx.proved("M3", f"load_fields:{ast.unparse(c)}", mod.loc(c), f"{c.func.id} raises unless it read exactly the requested number of bytes")
    # every wire type that carries a payload of known length gets it through a checked read, however many read sites serve them
    guarded_lines = {r["line"] for r in res if r["guarded"]}
    covered = 0
    for w in (1, 2, 5):
        paths = _reader_paths(ctx, mod, "load_fields", w)
        reads_ok = []
        for p in paths:
            if not any(e.kind == "yield" for e in p.events):
                continue
            for e in p.events:
                if e.kind != "call":
                    continue
                nm = dotted(e.data[1])
                if nm in helpers:
                    reads_ok.append(True)
                elif nm.endswith(".read") and e.data[2] and e.data[2][0] != C(1):
                    reads_ok.append(e.line in guarded_lines)
        name = f"load_fields:payload[wire {w}]"
        if not reads_ok:
            ctx.inconclusive("M3", name, "no payload read found on the yielding paths", mod.loc(lf))
        elif all(reads_ok):
            covered += 1
            ctx.proved("M3", name, mod.loc(lf), f"{len(reads_ok)} checked reads")
        else:
            ctx.refuted("M3", name, "unchecked", mod.loc(lf), f"the payload of wire type {w} is taken with a read whose length is not verified: a truncated payload is decoded as a shorter value",
                        "M().parse(bytes(M(s='hello'))[:-2])")
    ctx.floor("M3", "payload-carrying wire types with a read in load_fields", covered + sum(1 for r in res if not r["guarded"]), 3)
    for r in res:
        name = f"load_fields:read({r['n']})"
        if r["guarded"]:
            ctx.proved("M3", name, f"{mod.rel}:{r['line']}")
        else:
            ctx.refuted("M3", name, "unchecked", f"{mod.rel}:{r['line']}",
                        f"`{r['var']} = stream.read({r['n']})` may return fewer bytes than requested; {r['why'] or 'no length test'} - a truncated payload is decoded as a shorter value",
                        "M().parse(bytes(M(s='hello'))[:-2])")
    # parse_fields: slices of the buffer must be bounded by a test of the end index against len(value)
    pf = mod.func("parse_fields")
    sl = slice_sites(pf)
    ctx.floor("M3", "payload slices in parse_fields", len(sl), 1)
    g = CFG(pf, implicit_exc=False)
    bufname = pf.args.args[0].arg
    # locals that hold len(buffer) (hoisted out of the loop)
    len_names = {a.targets[0].id for a in ast.walk(pf) if isinstance(a, ast.Assign) and len(a.targets) == 1 and isinstance(a.targets[0], ast.Name)
                 and ast.unparse(a.value) == f"len({bufname})" and sum(1 for x in ast.walk(pf) if isinstance(x, ast.Name) and x.id == a.targets[0].id and isinstance(x.ctx, ast.Store)) == 1}
    # accepted idiom: a test comparing the position with len(buffer) whose failing branch raises, between the slices and the yield
    guard_tests = []
    for nd in g.nodes:
        if nd.kind == "test" and isinstance(nd.stmt, ast.If) and any(isinstance(b, ast.Raise) for b in nd.stmt.body):
            t = simplify(from_ast(nd.stmt.test, lambda nm: ("call", N("len"), (N(bufname),), ()) if nm in len_names else None))
            if contains(t, ("call", N("len"), (N(bufname),), ())) and t[0] == "op" and (t[1] == "<" or (t[1] == "not" and t[2][0] == "op" and t[2][1] in ("<", "=="))):
                guard_tests.append(nd.id)
    yields = [nd for nd in g.nodes if nd.stmt is not None and nd.kind == "stmt" and any(isinstance(x, ast.Yield) for x in own_nodes(nd.stmt))]
    loop_heads = [nd for nd in g.nodes if nd.kind == "loop"]
    for st, sub in sl:
        if ast.unparse(sub.value) != bufname:
            continue
        if sub.slice.lower is not None and isinstance(sub.slice.lower, ast.Name) and sub.slice.lower.id == "start":
            continue  # raw = value[start:i] is the consumed region itself
        name = f"parse_fields:{ast.unparse(sub)}"
        ok = False
        for sn in g.nodes_for(st):
            if yields and guard_tests and all(g.must_pass(sn.id, y.id, set(guard_tests), labels=normal_edge) for y in yields):
                ok = True
            # the end position may be tested before the slice is taken: then the test lies between the head of the iteration
            # and the slice, and it is the slice's own upper bound that it compares with the buffer length
            if not ok and guard_tests and loop_heads and isinstance(sub.slice.upper, ast.Name):
                ub = sub.slice.upper.id
                mine = {gid for gid in guard_tests if any(isinstance(x, ast.Name) and x.id == ub for x in ast.walk(g.nodes[gid].stmt.test))}
                reassigned_between = False
                if mine and all(g.must_pass(h.id, sn.id, mine, labels=normal_edge) for h in loop_heads):
                    # the bound must not be assigned again between the test and the slice
                    for gid in mine:
                        region = g.reachable([t_ for t_, lab in g.succ[gid] if lab == "false"], avoid={sn.id}, labels=normal_edge)
                        for i_ in region:
                            nd_ = g.nodes[i_]
                            if nd_.stmt is not None and nd_.kind == "stmt" and any(isinstance(x, ast.Name) and x.id == ub and isinstance(x.ctx, ast.Store) for x in own_nodes(nd_.stmt)) \
                                    and sn.id in g.reachable([i_], labels=normal_edge):
                                reassigned_between = True
                    if not reassigned_between:
                        ok = True
        if ok:
            ctx.proved("M3", name, mod.loc(st))
        else:
            ctx.refuted("M3", name, "unchecked", mod.loc(st),
                        f"slice {ast.unparse(sub)} silently yields fewer bytes when the buffer is too short; no test of the end position against len({bufname}) precedes the yield",
                        "list(parse_fields(b'\\x0a\\x05ab'))")


# ---------------------------------------------------------------------------
# M3b - clean end of input only at a field boundary


def rule_M3b(ctx) -> None:
    mod = ctx.repo.mod(M_INIT)
    lv = mod.func("load_varint")
    lf = mod.func("load_fields")
    # which exception classes does load_fields translate into a clean end?
    clean: Set[str] = set()
    for n in ast.walk(lf):
        if isinstance(n, ast.Try):
            body_txt = " ".join(ast.unparse(b) for b in n.body)
            if "load_varint" in body_txt or "read" in body_txt:
                for h in n.handlers:
                    if any(isinstance(x, ast.Return) for x in ast.walk(ast.Module(body=h.body, type_ignores=[]))):
                        if h.type is None:
                            clean.add("*")
                        elif isinstance(h.type, ast.Tuple):
                            clean.update(ast.unparse(e) for e in h.type.elts)
                        else:
                            clean.add(ast.unparse(h.type))
    if not clean:
        # no exception-based signal: the generator may only end under an emptiness test of the iteration's first read
        paths = Interp(mod, fresh_calls=["read", "load_varint", "decode_varint"] + list(exact_readers(mod)), fork_while=True).run(lf)
        ctx.count(len(paths))
        ends = [p for p in paths if p.outcome in ("return", "fall") and not any(e.kind == "yield" for e in p.events)]
        if not ends:
            ctx.inconclusive("M3b", "load_fields:clean-end", "no path on which the reader ends normally", mod.loc(lf))
            return
        bad = None
        for p in ends:
            cons = [e for e in p.events if e.kind == "call" and e.depth == 0 and (dotted(e.data[1]).endswith(".read") or dotted(e.data[1]) in ("load_varint", "decode_varint"))]
            if len(cons) != 1 or not dotted(cons[0].data[1]).endswith(".read") or p.valuation.get(cons[0].data) is not False:
                bad = p
        if bad is None:
            ctx.proved("M3b", "load_fields:clean-end", mod.loc(lf), "the reader ends only when the first byte of a tag cannot be read")
        else:
            ctx.refuted("M3b", "load_fields:clean-end", "ends-after-consuming", mod.loc(lf),
                        "load_fields can end normally after having consumed input in the current iteration: " + val_text(bad.valuation),
                        "M().parse(b'\\xa0')")
        return
    paths = Interp(mod, fresh_calls=["read"], unroll=2).run(lv)
    ctx.count(len(paths))
    first, later = set(), set()
    for p in paths:
        if p.outcome != "raise":
            continue
        nreads = len([e for e in p.events if e.kind == "call" and dotted(e.data[1]).endswith(".read")])
        exc = dotted(p.value[1]) if p.value and p.value[0] == "call" else show(p.value) if p.value else "?"
        (first if nreads <= 1 else later).add(exc)
    mid = {e for e in later if e in clean or "*" in clean or ("Exception" in clean and e != "?")}
    # the bound violation (ValueError) is not an end-of-input signal unless load_fields catches it
    if mid:
        ctx.refuted("M3b", "load_fields:clean-end", f"mid-varint={sorted(mid)}", mod.loc(lf),
                    f"load_varint raises {sorted(mid)} when input ends after at least one byte of a varint, the same class it raises at a clean boundary; "
                    f"load_fields maps {sorted(clean)} on the tag read to a normal end, so an input cut inside a multi-byte tag is accepted",
                    "M().parse(b'\\xa0')")
    else:
        ctx.proved("M3b", "load_fields:clean-end", mod.loc(lf), f"first-byte EOF raises {sorted(first)}, mid-varint EOF raises {sorted(later)}; clean end only for {sorted(clean)}")


# ---------------------------------------------------------------------------
# M4 - declared type x incoming wire type


def rule_M4(ctx) -> None:
    from .codec import _load_paths, model
    from ..fieldloop import TYPE_NAMES, FIELD_NAME
    from ..refsrc import SPEC_PACKABLE

    m = model(ctx)
    mod = m.mod
    load = mod.func("Message.load")
    bad: List[str] = []
    good = 0
    total = 0
    first_bad_detail = ""
    for t in TYPE_NAMES:
        wt = m.wire_of(t)
        for w in (0, 1, 2, 5):
            if w == wt or (w == 2 and t in SPEC_PACKABLE):
                continue
            total += 1
            paths = _load_paths(ctx, mod, t, w)
            verdict = True
            for p in paths:
                if not p.valuation.get(FIELD_NAME, False):
                    continue  # unknown-number branch
                # on a mismatching occurrence *any* store is wrong - also the "materialise the default" setattr, which
                # switches a oneof to the member whose number was hit
                stores = [e for e in p.events if e.depth == 0 and (
                    (e.kind == "call" and dotted(e.data[1]) in ("setattr", "$current.append", "$default.append", "$current.extend"))
                    or (e.kind == "store" and e.data[0][0] == "sub" and e.data[0][1] in (N("$current"), N("$default"))))]
                unknown = [e for e in p.events if e.kind == "aug" and e.data[0] == A(N("self"), "_unknown_fields")]
                raised_early = p.outcome == "raise" and not stores
                if stores and not raised_early:
                    verdict = False
                    if not first_bad_detail:
                        first_bad_detail = f"({t}, wire {w}): " + "; ".join(show(e.data) if e.kind == "call" else "store" for e in stores[:1])
                elif not unknown and not raised_early:
                    verdict = False
            if verdict:
                good += 1
            else:
                bad.append(f"{t}/{w}")
    if not bad:
        ctx.proved("M4", "load:type-x-wire", mod.loc(load), f"{total} mismatching (type, wire) pairs go to unknown fields")
    else:
        w = "all-mismatches" if len(bad) == total else ",".join(bad)
        ctx.refuted("M4", "load:type-x-wire", w, mod.loc(load),
                    f"{len(bad)} of {total} mismatching (declared type, incoming wire type) pairs are stored into the known field instead of being kept as unknown: e.g. {first_bad_detail}",
                    "M().parse(b'\\x28\\x05')  # string field number 5 sent as varint")


def rule_M4b(ctx) -> None:
    """a length-delimited occurrence is decoded as a packed run only for a *repeated* field"""
    from .codec import _load_paths, in_packed_loop, model
    from ..fieldloop import FIELD_NAME
    from ..refsrc import SPEC_PACKABLE

    m = model(ctx)
    mod = m.mod
    load = mod.func("Message.load")
    bad = None
    n = 0
    for t in ("int32", "bool", "double", "enum"):
        paths = _load_paths(ctx, mod, t, 2)
        for p in paths:
            if not p.valuation.get(FIELD_NAME, False):
                continue
            evs = [i for i, e in enumerate(p.events) if in_packed_loop(e.loops)]
            if not evs:
                continue
            n += 1
            first = evs[0]
            # an atom deciding that the field is repeated must have been evaluated (true) before the packed loop starts
            established = False
            for k, v in p.valuation.items():
                txt = show(k) if k and k[0] != "raises" else ""
                if v and (("default_gen" in txt and "list" in txt) or (k[0] == "call" and k[1] == N("isinstance") and k[2][1] == N("list") and k[2][0] in (N("$current"), N("$default")))):
                    # was it decided before the packed loop? (atoms are ordered by first evaluation; the packed-branch guard
                    # `wire_type == LEN_DELIM and proto_type in PACKED_TYPES` is folded, so position is judged by events)
                    established = True
            if established:
                # the repeated-ness test must precede the packed loop in event order
                idx = [i for i, e in enumerate(p.events) if e.kind == "call" and ("isinstance" in show(e.data) and "list" in show(e.data))]
                if not any(("default_gen" in show(k)) for k in p.valuation) and idx and min(idx) > first:
                    established = False
            if not established:
                bad = (t, p)
    if bad:
        t, p = bad
        ctx.refuted("M4", "load:packed-only-for-repeated", f"singular:{t}", mod.loc(load),
                    f"a length-delimited occurrence of a {t} field is decoded as a packed run without first establishing that the field is repeated (path {val_text(p.valuation)}): "
                    "for a singular field the list of decoded elements is stored into the field, which then holds a value that is not of its declared type",
                    "M().parse(b'\\x12\\x02\\x01\\x02').i == [1, 2] for a singular int32 field 2")
    elif n == 0:
        ctx.inconclusive("M4", "load:packed-only-for-repeated", "packed decoding path not found", mod.loc(load))
    else:
        ctx.proved("M4", "load:packed-only-for-repeated", mod.loc(load), f"{n} packed paths")


# ---------------------------------------------------------------------------
# M5 - decode loops make progress


def _positive_under_guard(fn: ast.AST, lp: ast.While, st: ast.stmt, name: str) -> bool:
    """`name` only ever holds non-negative int constants, and `st` sits under `if name:` inside the loop: the step is positive"""
    vals = []
    for n in ast.walk(fn):
        if isinstance(n, ast.Assign):
            for tgt in n.targets:
                if isinstance(tgt, ast.Name) and tgt.id == name:
                    vals.append(n.value)
                elif isinstance(tgt, ast.Tuple) and isinstance(n.value, ast.Tuple) and len(tgt.elts) == len(n.value.elts):
                    for e, v in zip(tgt.elts, n.value.elts):
                        if isinstance(e, ast.Name) and e.id == name:
                            vals.append(v)
    if not vals or not all(isinstance(v, ast.Constant) and isinstance(v.value, int) and v.value >= 0 for v in vals):
        return False
    for n in ast.walk(lp):
        if isinstance(n, ast.If) and isinstance(n.test, ast.Name) and n.test.id == name and any(x is st for b in n.body for x in ast.walk(b)):
            return True
    return False


def _advances_by_value_flow(mod, fn: ast.AST, lp: ast.While, var: str) -> bool:
    """the loop variable at the end of one (symbolically executed) iteration is strictly greater than at its start, on every
    path that completes the iteration: it is the end position returned by decode_varint(buf, p) for a p at or beyond the start
    (a varint is at least one byte long, or decode_varint raises), possibly plus non-negative amounts (constants, decoded
    lengths, entries of a constant table of non-negative widths, len(..))"""
    if len([x for x in ast.walk(fn) if isinstance(x, ast.While)]) != 1:
        return False
    inits = [a.value for a in fn.body if isinstance(a, ast.Assign) and len(a.targets) == 1 and isinstance(a.targets[0], ast.Name) and a.targets[0].id == var]
    if len(inits) != 1 or not isinstance(inits[0], ast.Constant):
        return False
    base = C(inits[0].value)
    paths = Interp(mod).run(fn)

    def nonneg(t: Sym) -> bool:
        if t[0] == "c":
            return isinstance(t[1], int) and not isinstance(t[1], bool) and t[1] >= 0
        if t[0] == "item" and t[1][0] == "call" and dotted(t[1][1]) == "decode_varint" and t[2] == 0:
            return True                     # a decoded varint is non-negative
        if t[0] == "call" and dotted(t[1]) == "len":
            return True
        if t[0] == "call" and t[1][0] == "a" and t[1][2] == "get" and t[1][1][0] == "c" and isinstance(t[1][1][1], dict) and len(t[2]) == 1:
            return all(isinstance(v, int) and not isinstance(v, bool) and v >= 0 for v in t[1][1][1].values())
        if t[0] == "sub" and t[1][0] == "c" and isinstance(t[1][1], dict):
            return all(isinstance(v, int) and not isinstance(v, bool) and v >= 0 for v in t[1][1].values())
        if t[0] == "op" and t[1] in ("+", "*") and len(t) == 4:
            return nonneg(t[2]) and nonneg(t[3])
        return False

    def ge(t: Sym) -> bool:
        return t == base or gt(t)

    def gt(t: Sym) -> bool:
        if t[0] == "item" and t[1][0] == "call" and dotted(t[1][1]) == "decode_varint" and t[2] == 1 and len(t[1][2]) == 2:
            return ge(t[1][2][1])
        if t[0] == "op" and t[1] == "+" and len(t) == 4:
            return (gt(t[2]) and nonneg(t[3])) or (gt(t[3]) and nonneg(t[2]))
        return False

    done = [p for p in paths if p.outcome in ("fall", "return") and p.locals.get(var) is not None and p.locals.get(var) != base]
    looping = [p for p in paths if p.outcome in ("fall", "return")]
    # a path that leaves without having changed the variable never entered the loop (or ended at its head)
    return bool(done) and all(gt(p.locals[var]) for p in done) and all(p in done or not any(e.kind == "yield" for e in p.events) for p in looping)


def rule_M5(ctx) -> None:
    mod = ctx.repo.mod(M_INIT)
    sites = []
    for q in ("parse_fields", "Message.load"):
        fn = mod.func(q)
        for n in ast.walk(fn):
            if isinstance(n, ast.While):
                sites.append((q, fn, n))
    ctx.floor("M5", "while loops in the decoders", len(sites), 2)
    for q, fn, lp in sites:
        t = simplify(from_ast(lp.test))
        var = None
        if t[0] == "op" and t[1] == "<" and t[2][0] == "n" and t[3][0] == "call" and t[3][1] == N("len"):
            var = t[2][1]
        elif t[0] == "op" and t[1] == "<" and t[2][0] == "n" and t[3][0] == "n":
            # `pos < end` with a bound that the loop does not change (end = len(buffer) hoisted out of the loop)
            bound = t[3][1]
            assigned_in_loop = {x.id for b in lp.body for x in ast.walk(b) if isinstance(x, ast.Name) and isinstance(x.ctx, ast.Store)}
            if bound not in assigned_in_loop:
                var = t[2][1]
        name = f"{q}:while {ast.unparse(lp.test)}"
        if q == "Message.load":
            # the field loop: every iteration takes a field from the reader (>= 1 byte, M5 on load_fields) or leaves
            g = CFG(fn, implicit_exc=False)
            adv = {nd.id for nd, _ in _advance_sites(g, fn)}
            heads = [nd for nd in g.nodes_for(lp) if nd.kind == "loop"]
            okp = bool(adv) and bool(heads)
            for h in heads:
                starts = [m for m, lab in g.succ[h.id] if lab == "iter"]
                if h.id in g.reachable(starts, avoid=adv, labels=normal_edge):
                    okp = False
            if okp:
                ctx.proved("M5", name, mod.loc(lp), "every iteration takes a field from the reader")
                continue
        if var is None:
            if isinstance(lp.test, ast.Constant) and lp.test.value:
                # while True: must contain a consuming call on every iteration path (handled for load_fields below)
                continue
            ctx.inconclusive("M5", name, "loop condition is not `pos < len(buffer)`", mod.loc(lp))
            continue
        g = CFG(fn, implicit_exc=False)
        heads = [nd for nd in g.nodes_for(lp) if nd.kind == "loop"]
        prog = set()
        for nd in g.nodes:
            if nd.stmt is None or nd.kind != "stmt":
                continue
            st = nd.stmt
            if isinstance(st, ast.AugAssign) and isinstance(st.target, ast.Name) and st.target.id == var and isinstance(st.op, ast.Add):
                if isinstance(st.value, ast.Constant) and isinstance(st.value.value, int) and st.value.value > 0:
                    prog.add(nd.id)
                elif isinstance(st.value, ast.Name) and _positive_under_guard(fn, lp, st, st.value.id):
                    prog.add(nd.id)             # pos += width under `if width:` with width only ever 0 / 4 / 8
            if isinstance(st, ast.Assign):
                # i = i + k / (x, i) = decode_varint(buf, i) / decoded, i = buf[i:i+8], i + 8
                for tgt in st.targets:
                    names = [e.id for e in (tgt.elts if isinstance(tgt, ast.Tuple) else [tgt]) if isinstance(e, ast.Name)]
                    if var in names:
                        vals = st.value.elts if isinstance(st.value, ast.Tuple) and isinstance(tgt, ast.Tuple) and len(st.value.elts) == len(tgt.elts) else None
                        if vals is not None:
                            v = vals[[e.id if isinstance(e, ast.Name) else None for e in tgt.elts].index(var)]
                            if isinstance(v, ast.BinOp) and isinstance(v.op, ast.Add) and isinstance(v.right, ast.Constant) and isinstance(v.right.value, int) and v.right.value > 0 \
                                    and isinstance(v.left, ast.Name) and v.left.id == var:
                                prog.add(nd.id)
                            elif isinstance(v, ast.BinOp) and isinstance(v.op, ast.Add) and isinstance(v.left, ast.Name) and v.left.id == var and isinstance(v.right, ast.Name) \
                                    and _positive_under_guard(fn, lp, nd.stmt, v.right.id):
                                prog.add(nd.id)
                        elif isinstance(st.value, ast.Call) and ast.unparse(st.value.func) == "decode_varint":
                            prog.add(nd.id)
        ok = bool(heads) and all(h.id not in g.reach_from_successors(h.id, avoid=prog, labels=lambda l: l == "iter" or (normal_edge(l) and l != "done")) for h in heads)
        # reach_from_successors starts from all successors incl. 'done'; restrict to body entry
        ok = True
        for h in heads:
            starts = [m for m, lab in g.succ[h.id] if lab == "iter"]
            back = g.reachable(starts, avoid=prog, labels=normal_edge)
            if h.id in back:
                ok = False
        if not ok and _advances_by_value_flow(mod, fn, lp, var):
            ctx.proved("M5", name, mod.loc(lp), f"every iteration ends with `{var}` strictly beyond where it started (value flow: a decoded varint's end position plus non-negative widths)")
            continue
        if ok:
            ctx.proved("M5", name, mod.loc(lp), f"every iteration advances `{var}`")
        else:
            ctx.refuted("M5", name, "no-progress-path", mod.loc(lp), f"an iteration of the loop can return to its head without advancing `{var}`")
    # load_fields: every iteration starts with a varint read (>= 1 byte or EOF)
    lf = mod.func("load_fields")
    g = CFG(lf, implicit_exc=False)
    heads = [nd for nd in g.nodes if nd.kind == "loop"]
    cons = {nd.id for nd in g.nodes if nd.stmt is not None and nd.kind == "stmt" and any(
        isinstance(x, ast.Call) and ast.unparse(x.func) in ("load_varint",) for x in own_nodes(nd.stmt))}
    # a plain read of at least one byte whose emptiness ends the function right away consumes on every path that goes on
    for blk in [n_ for n_ in ast.walk(lf) if isinstance(getattr(n_, "body", None), list)]:
        for a_, b_ in zip(blk.body, blk.body[1:]):
            if isinstance(a_, ast.Assign) and len(a_.targets) == 1 and isinstance(a_.targets[0], ast.Name) and isinstance(a_.value, ast.Call) and isinstance(a_.value.func, ast.Attribute) \
                    and a_.value.func.attr == "read" and len(a_.value.args) == 1 and isinstance(a_.value.args[0], ast.Constant) and isinstance(a_.value.args[0].value, int) and a_.value.args[0].value >= 1 \
                    and isinstance(b_, ast.If) and isinstance(b_.test, ast.UnaryOp) and isinstance(b_.test.op, ast.Not) and isinstance(b_.test.operand, ast.Name) \
                    and b_.test.operand.id == a_.targets[0].id and b_.body and isinstance(b_.body[-1], (ast.Return, ast.Raise)) and not b_.orelse:
                cons |= {nd.id for nd in g.nodes if nd.stmt is a_}
    ok = bool(heads)
    for h in heads:
        starts = [m for m, lab in g.succ[h.id] if lab == "iter"]
        if h.id in g.reachable(starts, avoid=cons, labels=normal_edge):
            ok = False
    if ok:
        ctx.proved("M5", "load_fields:while True", mod.loc(lf), "every iteration reads a tag varint")
    else:
        ctx.refuted("M5", "load_fields:while True", "no-progress-path", mod.loc(lf), "an iteration can complete without consuming input")


# ---------------------------------------------------------------------------
# N5 - varint decoders return only after a terminator byte


def rule_N5(ctx, rule: str = "N5") -> None:
    """every function that decodes a base-128 varint (decides the 0x80 continuation bit of a byte inside a loop, however
    the test is spelled) returns normally only on paths that saw a byte with that bit clear"""
    from .varint import continuation_decided, returns_after_terminator
    mod = ctx.repo.mod(M_INIT)
    sites = 0
    for q, fn in mod.functions():
        if not any(isinstance(n, (ast.For, ast.While)) for n in ast.walk(fn)):
            continue
        if not any(isinstance(n, ast.Constant) and n.value in (0x80, 0x7F) and not isinstance(n.value, bool) for n in ast.walk(fn)):
            continue
        if any(isinstance(n, (ast.Yield, ast.YieldFrom)) for n in ast.walk(fn)):
            continue
        # writers (they set the bit with `|`) are not readers
        if any(isinstance(n, ast.BinOp) and isinstance(n.op, ast.BitOr) and any(isinstance(x, ast.Constant) and x.value == 0x80 for x in (n.left, n.right)) for n in ast.walk(fn)):
            continue
        if not continuation_decided(mod, fn):
            continue
        sites += 1
        n_ret, bad, n_paths = returns_after_terminator(mod, fn)
        ctx.count(n_paths)
        if not n_ret:
            ctx.inconclusive(rule, f"{q}:returns-after-terminator", "no returning path", mod.loc(fn))
        elif bad is not None:
            ctx.refuted(rule, f"{q}:returns-after-terminator", "returns-on-exhaustion", mod.loc(fn),
                        f"{q} can return normally without having seen a byte with the continuation bit clear (input ended inside a varint): "
                        f"{ {show(k): v for k, v in bad.valuation.items()} }", "a buffer ending in a byte with bit 0x80 set, e.g. decode_varint(b'\\xac', 0)")
        else:
            ctx.proved(rule, f"{q}:returns-after-terminator", mod.loc(fn), f"{n_ret} returning paths")
    ctx.floor(rule, "varint decode loops", sites, 1)


# ---------------------------------------------------------------------------
# U1 - byte conservation in the field readers


def _sum_parts(s: Sym) -> List[Sym]:
    if s[0] == "op" and s[1] == "+":
        out = []
        for x in s[2:]:
            out.extend(_sum_parts(x))
        return out
    return [s]


def rule_U1(ctx) -> None:
    mod = ctx.repo.mod(M_INIT)
    lf = mod.func("load_fields")
    sites = 0
    for w in VALID_WIRE:
        paths = _reader_paths(ctx, mod, "load_fields", w)
        for p in paths:
            ys = [e for e in p.events if e.kind == "yield"]
            if not ys:
                continue
            y = ys[0]
            raw = None
            if y.data[0] == "call":
                for k, v in y.data[3]:
                    if k == "raw":
                        raw = v
                if raw is None and len(y.data[2]) >= 4:
                    raw = y.data[2][3]
            consumed = []
            # what was consumed *for this field*: reads after the yield belong to the next field (a reader may look at the next tag
            # byte only once the consumer asks for another field)
            upto = p.events.index(y)
            for e in p.events[:upto]:
                if e.kind != "call" or e.depth:
                    continue
                nm = dotted(e.data[1])
                if nm.endswith(".read") or nm in exact_readers(mod):
                    consumed.append(e.data)
                elif nm == "load_varint":
                    consumed.append(("item", e.data, 1))
            sites += len(consumed)
            parts = _sum_parts(raw) if raw is not None else []
            # a byte read ahead and handed to the next consuming call (load_varint(stream, first)) is part of that call's raw
            missing = [c for c in consumed if c not in parts and not any(contains(x, c) for x in parts if x != c)]
            extra = [x for x in parts if x not in consumed and x != C(b"")]
            dup = len(parts) != len(set(parts))
            name = f"load_fields:raw[wire {w}]"
            if raw is None:
                ctx.inconclusive("U1", name, "yielded ParsedField has no raw argument", mod.loc(lf))
            elif missing or extra or dup:
                ctx.refuted("U1", name, f"missing={len(missing)} extra={len(extra)} dup={dup}", mod.loc(lf),
                            f"bytes consumed from the stream do not all reach ParsedField.raw: missing {[show(x) for x in missing]}, extra {[show(x) for x in extra]}",
                            "Old().parse(new_bytes) then bytes(...) for an unknown field of this wire type")
            else:
                # order must be the order of consumption
                if [c for c in consumed if c in parts] != parts:
                    ctx.refuted("U1", name, "order", mod.loc(lf), f"raw is assembled out of order: {[show(x) for x in parts]}")
                else:
                    ctx.proved("U1", name, mod.loc(lf), f"{len(consumed)} consuming calls all in raw")
    ctx.floor("U1", "consuming sites", sites, 6)
    # parse_fields: raw is the slice from the iteration's start to its end position
    pf = mod.func("parse_fields")
    for w in VALID_WIRE:
        paths = _reader_paths(ctx, mod, "parse_fields", w)
        for p in paths:
            ys = [e for e in p.events if e.kind == "yield"]
            if not ys:
                continue
            y = ys[0]
            raw = dict((k, v) for k, v in y.data[3]).get("raw") if y.data[0] == "call" else None
            name = f"parse_fields:raw[wire {w}]"
            buf = N(pf.args.args[0].arg)
            pos_final = None
            # the position variable is the one in the loop condition
            for n in ast.walk(pf):
                if isinstance(n, ast.While) and isinstance(n.test, ast.Compare) and isinstance(n.test.left, ast.Name):
                    pos_final = p.locals.get(n.test.left.id)
            if raw is not None and raw[0] == "sub" and raw[1] == buf and raw[2][0] == "slice" and raw[2][2] == pos_final and raw[2][1] in (C(0), N("start")):
                ctx.proved("U1", name, mod.loc(pf))
            elif raw is not None and raw[0] == "sub" and raw[1] == buf and raw[2][0] == "slice" and raw[2][2] == pos_final:
                ctx.proved("U1", name, mod.loc(pf))
            else:
                ctx.refuted("U1", name, "not-start-to-end", mod.loc(pf), f"raw is {show(raw) if raw else None}, expected {show(buf)}[start:{show(pos_final) if pos_final else '?'}]")


# ---------------------------------------------------------------------------
# U2/U3 - unknown branch stores exactly the raw bytes; writers of _unknown_fields


def rule_U2(ctx) -> None:
    from .codec import _load_paths
    from ..fieldloop import FIELD_NAME

    mod = ctx.repo.mod(M_INIT)
    load = mod.func("Message.load")
    paths = _load_paths(ctx, mod, None, None)
    unk = [p for p in paths if p.valuation.get(FIELD_NAME) is False]
    ctx.floor("U2", "unknown-number paths", len(unk), 1)
    bad = ""
    for p in unk:
        augs = [e for e in p.events if e.kind == "aug" and e.data[0] == A(N("self"), "_unknown_fields")]
        stores = [e for e in p.events if e.kind == "store" and e.data[0] == A(N("self"), "_unknown_fields")]
        ok_append = len(augs) == 1 and augs[0].data[1] == "+" and augs[0].data[2] == A(N("$parsed"), "raw") and not stores
        if not ok_append and len(stores) == 1 and not augs:
            v = stores[0].data[1]
            ok_append = v == ("op", "+", A(N("self"), "_unknown_fields"), A(N("$parsed"), "raw"))
        touched = [e for e in p.events if e.kind == "call" and e.depth == 0 and dotted(e.data[1]) in ("setattr", "$current.append", "$default.append")]
        if not ok_append:
            bad = "the unknown-number branch does not append exactly parsed.raw to _unknown_fields: " + "; ".join(
                f"{show(e.data[0])} {e.data[1]}= {show(e.data[2])}" for e in augs) + "; ".join(f"{show(e.data[0])} = {show(e.data[1])}" for e in stores)
            break
        if touched:
            bad = "the unknown-number branch writes a known field: " + show(touched[0].data)
            break
    if bad:
        ctx.refuted("U2", "load:unknown-branch", "not-append-raw", mod.loc(load), bad, "Old().parse(bytes(New(a=1, extra=2))) then bytes(...)")
    else:
        ctx.proved("U2", "load:unknown-branch", mod.loc(load), f"{len(unk)} paths append parsed.raw and touch no field")
    # every store to _unknown_fields anywhere in load keeps what is already there (parse() merges into an existing instance)
    repl = []
    for n in ast.walk(load):
        if isinstance(n, ast.Assign):
            for t in n.targets:
                if isinstance(t, ast.Attribute) and t.attr == "_unknown_fields":
                    if "_unknown_fields" not in ast.unparse(n.value):
                        repl.append(n)
    if repl:
        ctx.refuted("U2", "load:unknown-fields-accumulate", "replaced", mod.loc(repl[0]),
                    f"`{ast.unparse(repl[0])}` replaces unknown bytes already held by the instance (parse()/load() merge into an existing message)",
                    "m.parse(chunk1); m.parse(chunk2); bytes(m)  # both with unknown fields")
    else:
        ctx.proved("U2", "load:unknown-fields-accumulate", mod.loc(load))


def rule_U2b(ctx, rule: str = "U2") -> None:
    """a record that load keeps as an unknown field (unknown number, or a known number with a wire type that does not fit the
    declared type) leaves every known field alone: on every path that appends the record's raw bytes to _unknown_fields no
    field is assigned, selected or appended to"""
    from .codec import _load_paths

    mod = ctx.repo.mod(M_INIT)
    load = mod.func("Message.load")
    n = 0
    bad = None
    for t, w in (("int32", 5), ("int32", 2), ("string", 0), ("message", 0), ("fixed32", 0), ("map", 0)):
        paths = _load_paths(ctx, mod, t, w)
        for p in paths:
            kept = [e for e in p.events if (e.kind == "aug" and e.data[0] == A(N("self"), "_unknown_fields")) or
                    (e.kind == "store" and e.data[0] == A(N("self"), "_unknown_fields") and e.loops)]
            if not kept or p.outcome == "raise":
                continue
            n += 1
            touched = [e for e in p.events if e.kind == "call" and e.depth == 0 and e.loops and dotted(e.data[1]) in ("setattr", "$current.append", "$current.extend", "$default.append", "object.__setattr__", "super().__setattr__")]
            touched += [e for e in p.events if e.kind == "store" and e.depth == 0 and e.loops and e.data[0][0] == "sub" and "__dict__" in show(e.data[0][1])]
            if touched and bad is None:
                bad = (t, w, touched[0], p)
    name = "load:record-kept-as-unknown-touches-no-field"
    if bad:
        t, w, e, p = bad
        what = show(e.data) if e.kind == "call" else f"{show(e.data[0])} = {show(e.data[1])}"
        ctx.refuted(rule, name, what[:80], f"{mod.rel}:{e.line}",
                    f"a {t} field whose number arrives with wire type {w} is kept as an unknown field, but on that path load also performs {what}: the unconverted record alters a known field "
                    "(an unselected oneof member is selected at its default and displaces the member that was set)", "oneof {int32 a = 1; string b = 2}: bytes with b set, then field 1 as fixed32")
    elif n == 0:
        ctx.inconclusive(rule, name, "no path that keeps a record as an unknown field found", mod.loc(load))
    else:
        ctx.proved(rule, name, mod.loc(load), f"{n} paths")


def rule_U11(ctx, rule: str = "U11") -> None:
    """what load keeps in _unknown_fields only ever grows: every store to it inside Message.load extends its current value (`+=`, or
    `= self._unknown_fields + ..`).  A plain assignment from a value collected on the side (a local list started from the old
    content and joined after the loop) is an extension only if nothing else stores to the attribute in between - otherwise what
    the other site appended (the record of a known number with a wire type that does not fit) is overwritten"""
    mod = ctx.repo.mod(M_INIT)
    load = mod.func("Message.load")
    ctx.analysed("Message.load")

    def is_attr(e: ast.AST) -> bool:
        return isinstance(e, ast.Attribute) and e.attr == "_unknown_fields" and isinstance(e.value, ast.Name) and e.value.id == "self"

    extends, replaces = [], []
    for st in ast.walk(load):
        if isinstance(st, ast.AugAssign) and is_attr(st.target):
            extends.append(st)
        elif isinstance(st, ast.Assign) and any(is_attr(t) for t in st.targets):
            v = st.value
            if isinstance(v, ast.BinOp) and isinstance(v.op, ast.Add) and is_attr(v.left):
                extends.append(st)
            else:
                replaces.append(st)
    ctx.count(len(extends) + len(replaces))
    name = "load:unknown-fields-only-extended"
    if not extends and not replaces:
        ctx.inconclusive(rule, name, "no store to self._unknown_fields in Message.load", mod.loc(load))
    elif replaces and (extends or len(replaces) > 1):
        other = (extends or replaces[1:])[0]
        ctx.refuted(rule, name, ast.unparse(replaces[0])[:80], mod.loc(replaces[0]),
                    f"`{ast.unparse(replaces[0])[:100]}` replaces _unknown_fields with a value collected on the side while `{ast.unparse(other)[:80]}` (line {other.lineno}) stores to the attribute "
                    "as well: whichever record the other site kept is overwritten when both occur in one input - e.g. a known field number with a non-fitting wire type next to an unknown number",
                    "bytes with field 1 as a length-delimited record (declared int32) and an unknown field 15")
    elif replaces:
        # a single deferred write-back: it has to start from the old content
        r = replaces[0]
        reads_old = any(is_attr(x) for a in ast.walk(load) if isinstance(a, (ast.Assign, ast.AnnAssign)) and getattr(a, "value", None) is not None and a is not r for x in ast.walk(a.value))
        if reads_old:
            ctx.proved(rule, name, mod.loc(r), "one deferred write-back of a local collection that starts from the old content; no other store")
        else:
            ctx.refuted(rule, name, "old-content-dropped", mod.loc(r), f"`{ast.unparse(r)[:100]}` does not start from the unknown fields the message already holds (a second load / parse into the same message loses them)")
    else:
        ctx.proved(rule, name, mod.loc(extends[0]), f"{len(extends)} stores, each extends the current value")


def rule_U5(ctx) -> None:
    """the field lookup is redone for every field read: no use of a lookup result left over by an earlier iteration"""
    from .codec import _load_paths

    mod = ctx.repo.mod(M_INIT)
    load = mod.func("Message.load")
    paths = _load_paths(ctx, mod, None, None)
    stale = None
    for p in paths:
        for e in p.events:
            if e.kind in ("call", "store", "aug") and e.depth == 0:
                terms = [e.data] if e.kind == "call" else [x for x in e.data if isinstance(x, tuple)]
                for t in terms:
                    for x in walk(t):
                        if x[0] == "n" and x[1].startswith("$stale:"):
                            stale = (x[1][len("$stale:"):], e, p)
    if stale:
        name, e, p = stale
        ctx.refuted("U5", "load:lookup-per-field", f"stale:{name}", f"{mod.rel}:{e.line}",
                    f"on the path {val_text(p.valuation)} the local `{name}` is used without having been assigned for the field just read: it still holds what an earlier "
                    "iteration left there (e.g. None after an unknown field), so a known field that follows an unknown one is decoded with the wrong lookup result",
                    "known #k, unknown field, known #k again (e.g. repeated elements with an unknown field between them)")
    else:
        ctx.proved("U5", "load:lookup-per-field", mod.loc(load), f"{len(paths)} paths")


def rule_U3(ctx) -> None:
    """_unknown_fields is emitted by dump and counted by __len__ on every normal path"""
    from ..fieldloop import interp_for

    mod = ctx.repo.mod(M_INIT)
    dump = mod.func("Message.dump")
    ln = mod.func("Message.__len__")
    stream = dump.args.args[1].arg
    uf = A(N("self"), "_unknown_fields")
    paths = interp_for(mod).run(dump)
    ctx.count(len(paths))
    bad = [p for p in paths if p.outcome != "raise" and not any(
        e.kind == "call" and e.depth == 0 and dotted(e.data[1]) == f"{stream}.write" and e.data[2] == (uf,) and not e.loops for e in p.events)]
    last_ok = all((not [e for e in p.events if e.kind == "call" and e.depth == 0 and dotted(e.data[1]) == f"{stream}.write"]) or
                  [e for e in p.events if e.kind == "call" and e.depth == 0 and dotted(e.data[1]) == f"{stream}.write"][-1].data[2] == (uf,) for p in paths if p.outcome != "raise")
    if bad:
        ctx.refuted("U3", "dump:emits-unknown-fields", "missing", mod.loc(dump), f"{len(bad)} normal paths of dump do not write self._unknown_fields", "bytes(Old().parse(new_bytes))")
    elif not last_ok:
        ctx.refuted("U3", "dump:emits-unknown-fields", "not-last", mod.loc(dump), "unknown fields are not written after the known fields")
    else:
        ctx.proved("U3", "dump:emits-unknown-fields", mod.loc(dump), f"{len(paths)} paths")
    paths = interp_for(mod).run(ln)
    ctx.count(len(paths))
    from ..lenalg import size_term
    bad = []
    for p in paths:
        if p.outcome != "return" or p.value is None:
            continue
        t = size_term(p.value)
        if t == ("sum", (("len", N("self")),)):
            continue  # the sizer is defined through the writer (len(bytes(self)))
        if ("len", uf) not in t[1]:
            bad.append(p)
    if bad:
        ctx.refuted("U3", "__len__:counts-unknown-fields", "missing", mod.loc(ln), f"{len(bad)} return paths of __len__ do not add len(self._unknown_fields)")
    else:
        ctx.proved("U3", "__len__:counts-unknown-fields", mod.loc(ln))


# ---------------------------------------------------------------------------
# S2/U4 - byte accounting on every iteration


def _advance_sites(g: CFG, load: ast.AST):
    """where the next field is taken from the reader: the head of `for parsed in load_fields(...)`
    (its 'iter' edge) or a statement calling next(<generator made by load_fields(...)>).
    -> list of (node, edge label to follow after the advance or None for all normal edges)"""
    gens = set()

    def _is_reader(v: ast.AST) -> bool:
        if isinstance(v, ast.Call) and ast.unparse(v.func) in ("load_fields", "parse_fields", "iter"):
            return True
        # load_fields(stream) if <cond> else ()
        return isinstance(v, ast.IfExp) and (_is_reader(v.body) or _is_reader(v.orelse))

    for n in ast.walk(load):
        if isinstance(n, ast.Assign) and _is_reader(n.value):
            for t in n.targets:
                if isinstance(t, ast.Name):
                    gens.add(t.id)
    out = []
    for nd in g.nodes:
        if nd.kind == "loop" and isinstance(nd.stmt, ast.For) and ((isinstance(nd.stmt.iter, ast.Call)
                and ast.unparse(nd.stmt.iter.func) in ("load_fields", "parse_fields")) or (isinstance(nd.stmt.iter, ast.Name) and nd.stmt.iter.id in gens)):
            out.append((nd, "iter"))
        elif nd.kind == "stmt" and nd.stmt is not None:
            for c in own_nodes(nd.stmt):
                if isinstance(c, ast.Call) and ast.unparse(c.func) == "next" and c.args and (
                        (isinstance(c.args[0], ast.Name) and c.args[0].id in gens) or
                        (isinstance(c.args[0], ast.Call) and ast.unparse(c.args[0].func) in ("load_fields", "parse_fields"))):
                    out.append((nd, None))
    return out


def _load_loop_nodes(g: CFG, load: ast.AST):
    return [nd for nd, _ in _advance_sites(g, load)]


def _size_param(load: ast.AST) -> str:
    params = [a.arg for a in load.args.args]
    if len(params) < 3:
        raise AnalysisError("Message.load lost its size parameter")
    return params[2]


def _bound_var(load: ast.AST) -> str:
    """the local that holds the number of bytes the frame may take: the size parameter itself, or - when load copies the
    parameter into another local first (`expected = size`) and runs its record loop against that one - that local"""
    param = _size_param(load)
    copies = {st.targets[0].id for st in ast.walk(load) if isinstance(st, ast.Assign) and len(st.targets) == 1 and isinstance(st.targets[0], ast.Name)
              and isinstance(st.value, ast.Name) and st.value.id == param}
    # the byte counter (`remaining = size; ... remaining -= len(p.raw)`) starts as a copy too, but it is not the bound
    counters = {_acc_info(st)[0] for st in ast.walk(load) if isinstance(st, (ast.Assign, ast.AugAssign)) and _acc_info(st) is not None}
    copies -= counters
    if not copies:
        return param
    in_tests: Set[str] = set()
    for lp in ast.walk(load):
        if isinstance(lp, ast.While):
            in_tests |= {n.id for n in ast.walk(lp.test) if isinstance(n, ast.Name)}
    if param in in_tests or len(copies & in_tests) != 1:
        return param
    return next(iter(copies & in_tests))


def _none_names(fn: ast.AST, size: str) -> Set[str]:
    """locals that are None exactly when the size is: the size variable itself and a byte counter that starts as a plain copy of
    it and is only ever changed by subtracting lengths (`remaining = size; ... remaining -= len(p.raw)`)"""
    out = {size}
    for st in ast.walk(fn):
        if isinstance(st, ast.Assign) and len(st.targets) == 1 and isinstance(st.targets[0], ast.Name) and isinstance(st.value, ast.Name) and st.value.id == size:
            c = st.targets[0].id
            other = [a for a in ast.walk(fn) if a is not st and isinstance(a, (ast.Assign, ast.AugAssign, ast.AnnAssign)) and any(
                isinstance(x, ast.Name) and x.id == c and isinstance(x.ctx, ast.Store) for t_ in (a.targets if isinstance(a, ast.Assign) else [a.target]) for x in ast.walk(t_))]
            if other and all(_acc_info(a) == (c, True) for a in other):
                out.add(c)
    return out


_NONE_NAMES: Dict[int, Set[str]] = {}


def _is_size_none_test(test: ast.AST, size) -> Optional[bool]:
    """truth value of the test when size is not None, if the test is about that"""
    t = simplify(from_ast(test))
    for nm in ([size] if isinstance(size, str) else sorted(size)):
        if t == ("op", "is", N(nm), C(None)):
            return False
        if t == ("op", "not", ("op", "is", N(nm), C(None))):
            return True
    return None


def _acc_info(st: ast.AST) -> Optional[Tuple[str, bool]]:
    """(counter, counts_down) when the statement adds / subtracts len(<field>.raw) to / from a plain local:
    `read += len(p.raw)`, `remaining -= len(p.raw)`, `read = read + len(p.raw)`, `before, read = read, read + len(p.raw)`"""
    def is_raw_len(e: ast.AST) -> bool:
        v = ast.unparse(e)
        return v.startswith("len(") and v.endswith(".raw)")

    if isinstance(st, ast.AugAssign) and isinstance(st.op, (ast.Add, ast.Sub)) and isinstance(st.target, ast.Name) and is_raw_len(st.value):
        return st.target.id, isinstance(st.op, ast.Sub)
    if isinstance(st, ast.Assign) and len(st.targets) == 1:
        t, v = st.targets[0], st.value
        pairs = list(zip(t.elts, v.elts)) if isinstance(t, ast.Tuple) and isinstance(v, ast.Tuple) and len(t.elts) == len(v.elts) else [(t, v)]
        for tt, vv in pairs:
            if isinstance(tt, ast.Name) and isinstance(vv, ast.BinOp) and isinstance(vv.op, (ast.Add, ast.Sub)):
                if isinstance(vv.left, ast.Name) and vv.left.id == tt.id and is_raw_len(vv.right):
                    return tt.id, isinstance(vv.op, ast.Sub)
                if isinstance(vv.op, ast.Add) and isinstance(vv.right, ast.Name) and vv.right.id == tt.id and is_raw_len(vv.left):
                    return tt.id, False
    return None


def _accounting_nodes(g: CFG, counter_hint: Optional[str] = None):
    # read += len(parsed.raw) counts up towards size; remaining -= len(parsed.raw) counts size down towards 0
    return [nd for nd in g.nodes if nd.kind == "stmt" and nd.stmt is not None and _acc_info(nd.stmt) is not None]


def _prune_size_none(g: CFG, size: str) -> Set[Tuple[int, str]]:
    """edges that are infeasible when size is not None"""
    dead = set()
    for nd in g.nodes:
        if nd.kind == "test" and isinstance(nd.stmt, ast.If):
            tv = _is_size_none_test(nd.stmt.test, _none_names(g.fn, size))
            if tv is not None:
                dead.add((nd.id, "false" if tv else "true"))
    return dead


def _load_fn(mod):
    from ..expand import propagate_pure_flags
    return propagate_pure_flags(mod.func("Message.load"))


def rule_S2(ctx, rule: str = "S2") -> None:
    mod = ctx.repo.mod(M_INIT)
    load = _load_fn(mod)
    size = _bound_var(load)
    g = CFG(load, implicit_exc=False)
    heads = _load_loop_nodes(g, load)
    if not heads:
        raise AnalysisError("Message.load: field loop over load_fields(...) not found")
    acc = _accounting_nodes(g)
    if not acc:
        ctx.refuted(rule, "load:byte-accounting", "absent", mod.loc(load), "no `read += len(parsed.raw)` accounting statement in the field loop")
        return
    dead = _prune_size_none(g, size)
    accids = {a.id for a in acc}

    def lab_ok(n_from):
        return lambda l: normal_edge(l)

    # reachability with per-edge pruning: emulate by removing dead edges
    def reach(starts, avoid):
        seen = set()
        stack = [s for s in starts if s not in avoid]
        while stack:
            n = stack.pop()
            if n in seen:
                continue
            seen.add(n)
            for m_, lab in g.succ[n]:
                if not normal_edge(lab) or (n, lab) in dead or m_ in avoid or m_ in seen:
                    continue
                stack.append(m_)
        return seen

    live = reach([g.entry.id], set())
    sites = [(nd, lab) for nd, lab in _advance_sites(g, load) if nd.id in live]   # sites reachable when a size is given
    if not sites:
        ctx.inconclusive(rule, "load:byte-accounting", "no field-reading site is reachable when a size is given", mod.loc(load))
        return
    advids = {nd.id for nd, _ in sites}
    for h, lab0 in sites:
        starts = [m_ for m_, lab in g.succ[h.id] if (lab == lab0 if lab0 else normal_edge(lab))]
        back = reach(starts, accids)
        if back & advids:
            # find the bypassing path for the report
            path = g.find_path(h.id, advids, avoid=accids, labels=lambda l: normal_edge(l) and l != "done")
            ctx.refuted(rule, "load:byte-accounting", "bypass", mod.loc(load),
                        "an iteration of the field loop can reach the next field without `read += len(parsed.raw)` (size given): "
                        + (g.describe(path) if path else ""),
                        "Old().load(stream_of(New(...)), SIZE_DELIMITED) where the data has a field unknown to Old")
        else:
            ctx.proved(rule, "load:byte-accounting", mod.loc(load), "every iteration accounts for the bytes of its field")


# ---------------------------------------------------------------------------
# S1 - ordering invariant over {read < size, =, >}


def rule_S1(ctx, rule: str = "S1") -> None:
    mod = ctx.repo.mod(M_INIT)
    load = _load_fn(mod)
    size = _bound_var(load)
    g = CFG(load, implicit_exc=False)
    heads = _load_loop_nodes(g, load)
    acc = _accounting_nodes(g)
    if not heads or not acc:
        ctx.inconclusive(rule, "load:ordering-invariant", "field loop or accounting statement not found", mod.loc(load))
        return
    counter, down = _acc_info(acc[0].stmt)  # type: ignore[misc]
    if any(_acc_info(a.stmt) != (counter, down) for a in acc):
        ctx.inconclusive(rule, "load:ordering-invariant", "accounting statements disagree on the counter or its direction", mod.loc(load))
        return
    dead = _prune_size_none(g, size)
    LT, EQ, GT = "<", "=", ">"
    ALL = frozenset((LT, EQ, GT))
    # abstract state: (frozenset of relations read?size, read_is_zero: bool)
    State = Tuple[frozenset, bool]
    states: Dict[int, Set[State]] = {nd.id: set() for nd in g.nodes}

    def transfer_stmt(nd: Node, s: State) -> State:
        rel, zero = s
        st = nd.stmt
        if nd.kind == "stmt" and st is not None and _acc_info(st) == (counter, down):
            new = set()
            if LT in rel:
                new |= {LT, EQ, GT}
            if EQ in rel or GT in rel:
                new |= {GT}
            return frozenset(new), False
        if nd.kind == "stmt" and isinstance(st, ast.Assign) and len(st.targets) == 1 and isinstance(st.targets[0], ast.Name):
            if st.targets[0].id == counter:
                if not down and isinstance(st.value, ast.Constant) and st.value.value == 0:
                    return frozenset((LT, EQ)), True       # size >= 0 (a varint or a caller-supplied length)
                if down:
                    # remaining = size  /  size if size is not None else <anything>: nothing read yet, size >= 0
                    v = st.value
                    if isinstance(v, ast.IfExp):
                        tv = _is_size_none_test(v.test, _none_names(load, size))
                        v = v.body if tv is True else (v.orelse if tv is False else v)
                    if isinstance(v, ast.Name) and v.id == size:
                        return frozenset((LT, EQ)), True
                if ast.unparse(st.value) == counter:
                    return s
                return ALL, False
            if st.targets[0].id == size:
                return (frozenset((LT, EQ)), True) if zero else (ALL, False)
        if nd.kind == "stmt" and isinstance(st, ast.Assign) and any(isinstance(t, ast.Tuple) and any(isinstance(e, ast.Name) and e.id == size for e in t.elts) for t in st.targets):
            return (frozenset((LT, EQ)), True) if zero else (ALL, False)
        if nd.kind == "stmt" and st is not None and _acc_info(st) == (counter, down):
            # read += k with k >= 1 (a parsed field is at least a tag byte)
            new = set()
            if LT in rel:
                new |= {LT, EQ, GT}
            if EQ in rel or GT in rel:
                new |= {GT}
            return frozenset(new), False
        return s

    def refine(test: ast.AST, s: State, branch: bool) -> Optional[State]:
        return _refine_sym(simplify(from_ast(test)), s, branch)

    def _refine_sym(t: Sym, s: State, want: bool) -> Optional[State]:
        """states compatible with term t evaluating to `want` (size is not None throughout)"""
        rel, zero = s
        while t[0] == "op" and t[1] in ("not", "truth"):
            if t[1] == "not":
                want = not want
            t = t[2]
        r, z = N(counter), N(size)
        if t[0] == "op" and t[1] == "is" and len(t) == 4 and t[3] == C(None) and t[2][0] == "n" and t[2][1] in _none_names(load, size):
            return None if want else s
        if t[0] == "op" and t[1] in ("and", "or"):
            parts = list(t[2:])
            conj = (t[1] == "and") == want     # all parts must have value `want`
            if conj:
                cur: Optional[State] = s
                for part in parts:
                    if cur is None:
                        return None
                    cur = _refine_sym(part, cur, want)
                return cur
            # disjunctive case: union over the parts; states are sets of relations so merge them
            outs = [o for o in (_refine_sym(part, s, want) for part in parts) if o is not None]
            if not outs:
                return None
            return frozenset().union(*[o[0] for o in outs]), all(o[1] for o in outs)
        keep = None
        if down:
            # the counter holds size - read: read < size <=> counter > 0
            if t == ("op", "==", r, C(0)) or t == ("op", "==", C(0), r):
                keep = {EQ} if want else {LT, GT}
            elif t == ("op", "<", C(0), r):
                keep = {LT} if want else {EQ, GT}
            elif t == ("op", "<", r, C(0)):
                keep = {GT} if want else {LT, EQ}
            elif t == r:                                # truthiness of the remaining count
                keep = {LT, GT} if want else {EQ}
            elif zero and t == ("op", "==", z, C(0)):
                keep = {EQ} if want else {LT}
            elif zero and t == z:
                keep = {LT} if want else {EQ}
            elif zero and t == ("op", "<", C(0), z):
                keep = {LT} if want else {EQ}
            if keep is None:
                return s
            nr = frozenset(rel & keep)
            return (nr, zero) if nr else None
        if t == ("op", "==", r, z) or t == ("op", "==", z, r):
            keep = {EQ} if want else {LT, GT}
        elif t == ("op", "<", r, z):
            keep = {LT} if want else {EQ, GT}
        elif t == ("op", "<", z, r):
            keep = {GT} if want else {LT, EQ}
        elif zero and t == ("op", "==", z, C(0)):
            keep = {EQ} if want else {LT}
        elif zero and t == z:                       # truthiness of size while read == 0
            keep = {LT} if want else {EQ}
        elif zero and t == ("op", "<", C(0), z):
            keep = {LT} if want else {EQ}
        if keep is None:
            return s
        nr = frozenset(rel & keep)
        return (nr, zero) if nr else None

    sites = _advance_sites(g, load)

    def al_is_stmt(nd: Node) -> bool:
        return nd.kind == "stmt"

    # worklist
    init: State = (ALL, False)
    work = [(g.entry.id, init)]
    advance_states: Set[State] = set()
    exit_states: Set[State] = set()
    steps = 0
    while work:
        nid, s = work.pop()
        if s in states[nid]:
            continue
        states[nid].add(s)
        steps += 1
        if steps > 200000:
            raise AnalysisError("S1: abstract interpretation did not converge")
        nd = g.nodes[nid]
        if nid == g.exit.id:
            exit_states.add(s)
            continue
        out = transfer_stmt(nd, s)
        for m_, lab in g.succ[nid]:
            if not normal_edge(lab) or (nid, lab) in dead:
                continue
            s2: Optional[State] = out
            if nd.kind == "test" and isinstance(nd.stmt, ast.If) and lab in ("true", "false"):
                s2 = refine(nd.stmt.test, out, lab == "true")
            if nd.kind == "loop" and isinstance(nd.stmt, ast.While) and lab in ("iter", "done"):
                s2 = refine(nd.stmt.test, out, lab == "iter")
            if any(nd is a and (al is None or al == lab) for a, al in sites):
                advance_states.add(s if al_is_stmt(nd) else out)
            if s2 is not None:
                work.append((m_, s2))
    ctx.count(steps)
    adv = set().union(*[s[0] for s in advance_states]) if advance_states else set()
    ext = set().union(*[s[0] for s in exit_states]) if exit_states else set()
    if adv <= {LT}:
        ctx.proved(rule, "load:advance-only-when-read<size", mod.loc(load), f"field generator advanced in states {sorted(adv)}")
    else:
        w = "read==size" if EQ in adv else "read>size"
        zero_case = any(z for (rel, z) in advance_states if EQ in rel)
        ctx.refuted(rule, "load:advance-only-when-read<size", w + (":size==0" if zero_case else ""), mod.loc(load),
                    f"with a size given, the next field is read from the stream in state(s) {sorted(adv - {LT})} "
                    + ("(first iteration with size == 0): an empty delimited message consumes the message that follows it" if zero_case else ""),
                    "dump Old() and Old(a=5) delimited into one stream; the first load(s, SIZE_DELIMITED) consumes both")
    if ext <= {EQ}:
        ctx.proved(rule, "load:return-only-when-read==size", mod.loc(load))
    else:
        ctx.refuted(rule, "load:return-only-when-read==size", ",".join(sorted(ext - {EQ})), mod.loc(load),
                    f"load can return normally with read {sorted(ext - {EQ})} size: a short or over-long message is not detected")


def rule_S3(ctx) -> None:
    """the delimiter: load takes `size` from load_varint under size == SIZE_DELIMITED, before the loop"""
    from .codec import _load_paths

    mod = ctx.repo.mod(M_INIT)
    load = mod.func("Message.load")
    size = _bound_var(load)
    sd = mod.consts.get("SIZE_DELIMITED")
    atom = ("op", "==", N(_size_param(load)), C(sd))
    paths = _load_paths(ctx, mod, None, None, assume={atom: True})
    ok = True
    why = ""
    stream_p = load.args.args[1].arg
    for p in paths:
        if p.outcome == "raise" and not any(e.kind == "loop" for e in p.events):
            continue        # rejected before any field was read (e.g. a cleanly exhausted stream reported by load itself)
        calls = [e for e in p.events if e.kind == "call" and dotted(e.data[1]) == "load_varint" and e.depth == 0 and not e.loops]
        loop_idx = next((i for i, e in enumerate(p.events) if e.kind == "loop"), None)
        # bytes of the prefix that load reads itself (before the field loop)
        own = [e for i, e in enumerate(p.events) if e.kind == "call" and e.depth == 0 and e.data[1] == A(N(stream_p), "read") and (loop_idx is None or i < loop_idx)]
        if own:
            first = own[0].data
            s_ = p.locals.get(size)
            if len(own) > 1:
                ok, why = False, "load reads the length prefix itself in more than one piece (not analysed)"
                break
            if calls:
                c = calls[0].data
                handed = (len(c[2]) > 1 and c[2][1] == first) or dict(c[3]).get("first") == first
                if not handed:
                    ok, why = False, (f"the prefix byte taken by {show(first)} is not handed on to {show(c)}: for a prefix of more than one byte (frames of 128 bytes and more) the low 7 bits "
                                      "of the announced length are lost")
                    break
                if s_ != ("item", c, 0):
                    ok, why = False, f"`{size}` is {show(s_) if s_ else None}, not the value decoded by load_varint"
                    break
                continue
            # no varint call: only right for a one-byte prefix, i.e. when the path saw the continuation bit clear
            b0 = ("sub", first, C(0))
            clear = any((k == ("op", "&", b0, C(0x80)) and not v) or (k == ("op", "<", b0, C(0x80)) and v) or (k == ("op", "<", C(0x7F), b0) and not v) for k, v in p.valuation.items())
            if s_ == b0 and clear:
                continue
            ok, why = False, f"`{size}` is taken as {show(s_) if s_ else None} from a prefix byte load read itself, without the continuation bit having been found clear"
            break
        if not calls:
            ok, why = False, "no load_varint(stream) call before the field loop"
            break
        idx = p.events.index(calls[0])
        if loop_idx is not None and idx > loop_idx:
            ok, why = False, "length prefix read after the field loop started"
            break
        s = p.locals.get(size)
        if s != ("item", calls[0].data, 0):
            ok, why = False, f"`{size}` is {show(s) if s else None}, not the value decoded by load_varint"
            break
    if ok:
        ctx.proved("S3", "load:prefix", mod.loc(load), f"{len(paths)} paths")
    else:
        ctx.refuted("S3", "load:prefix", why, mod.loc(load), why, "M().load(stream, SIZE_DELIMITED)")


# ---------------------------------------------------------------------------
# U9 every record is taken through the record reader


def rule_U9(ctx, rule: str = "U9") -> None:
    """Message.load consumes its stream only through the record reader, and leaves the record loop only when the reader is
    exhausted (or the declared size is): bytes it reads itself are never split into records, so known fields inside them are not
    decoded - whatever their field numbers (records may come in any order)"""
    mod = ctx.repo.mod(M_INIT)
    fn = mod.func("Message.load")
    ctx.analysed("Message.load")
    stream = fn.args.args[1].arg
    size = _size_param(fn)
    readers = {"load_fields", "parse_fields"}
    gens = set()
    recs = set()
    for n in ast.walk(fn):
        if isinstance(n, ast.Assign) and isinstance(n.value, ast.Call) and isinstance(n.value.func, ast.Name) and n.value.func.id in readers:
            gens |= {t.id for t in n.targets if isinstance(t, ast.Name)}
    for n in ast.walk(fn):
        if isinstance(n, ast.Assign) and isinstance(n.value, ast.Call) and isinstance(n.value.func, ast.Name) and n.value.func.id == "next" and n.value.args \
                and ((isinstance(n.value.args[0], ast.Name) and n.value.args[0].id in gens) or (isinstance(n.value.args[0], ast.Call) and isinstance(n.value.args[0].func, ast.Name) and n.value.args[0].func.id in readers)):
            recs |= {t.id for t in n.targets if isinstance(t, ast.Name)}
        if isinstance(n, ast.For) and isinstance(n.target, ast.Name) and ((isinstance(n.iter, ast.Name) and n.iter.id in gens) or any(
                isinstance(c, ast.Call) and isinstance(c.func, ast.Name) and c.func.id in readers for c in ast.walk(n.iter))):
            recs.add(n.target.id)
    direct = [n for n in ast.walk(fn) if isinstance(n, ast.Call) and isinstance(n.func, ast.Attribute) and isinstance(n.func.value, ast.Name) and n.func.value.id == stream
              and n.func.attr in ("read", "read1", "readinto", "readline", "readall", "getvalue", "getbuffer", "seek", "peek")]
    # what load reads before the first record is taken belongs to the frame's length prefix (S3 decides that part)
    wire_loops = [lp for lp in ast.walk(fn) if isinstance(lp, (ast.For, ast.While)) and (
        (isinstance(lp, ast.For) and isinstance(lp.target, ast.Name) and lp.target.id in recs) or any(
            isinstance(c, ast.Call) and isinstance(c.func, ast.Name) and c.func.id == "next" and c.args and ((isinstance(c.args[0], ast.Name) and c.args[0].id in gens) or (isinstance(c.args[0], ast.Call) and isinstance(c.args[0].func, ast.Name) and c.args[0].func.id in readers)) for c in ast.walk(lp)))]
    first_loop_line = min((lp.lineno for lp in wire_loops), default=None)
    if first_loop_line is not None:
        direct = [n for n in direct if n.lineno >= first_loop_line]
    ctx.count(len(direct) + 1)
    if direct:
        ctx.refuted(rule, "load:stream-read-only-by-the-record-reader", ast.unparse(direct[0])[:60], mod.loc(direct[0]),
                    f"Message.load reads the stream itself ({ast.unparse(direct[0])}) besides the record reader: those bytes are not split into records, so known fields among them are "
                    "never decoded (records may arrive in any order; a higher unknown number says nothing about what follows)", "records: unknown #9, then known #1")
    else:
        ctx.proved(rule, "load:stream-read-only-by-the-record-reader", mod.loc(fn), f"record generators {sorted(gens)}")
    # exits of the record loop
    parents = {}
    for n in ast.walk(fn):
        for c in ast.iter_child_nodes(n):
            parents[c] = n

    def wire_loop_of(n):
        while n in parents:
            n = parents[n]
            if isinstance(n, (ast.For, ast.While)):
                return n
        return None

    def is_wire_loop(lp) -> bool:
        if isinstance(lp, ast.For) and isinstance(lp.target, ast.Name) and lp.target.id in recs:
            return True
        return any(isinstance(c, ast.Call) and isinstance(c.func, ast.Name) and c.func.id == "next" and c.args and ((isinstance(c.args[0], ast.Name) and c.args[0].id in gens) or (isinstance(c.args[0], ast.Call) and isinstance(c.args[0].func, ast.Name) and c.args[0].func.id in readers))
                   for c in ast.walk(lp))

    n_br = 0
    for br in [n for n in ast.walk(fn) if isinstance(n, ast.Break)]:
        lp = wire_loop_of(br)
        if lp is None or not is_wire_loop(lp):
            continue
        n_br += 1
        guards = []
        n = br
        in_stop = False
        while n is not lp:
            pa = parents[n]
            if isinstance(pa, ast.If):
                guards.append(pa.test)
            if isinstance(pa, ast.ExceptHandler) and pa.type is not None and "StopIteration" in ast.unparse(pa.type):
                in_stop = True
            n = pa
        texts = [ast.unparse(g) for g in guards]
        eof = in_stop or any(isinstance(g, ast.Compare) and isinstance(g.left, ast.Name) and g.left.id in recs and isinstance(g.ops[0], ast.Is) and ast.unparse(g.comparators[0]) == "None"
                             for g in guards) or any(isinstance(g, ast.UnaryOp) and isinstance(g.op, ast.Not) and isinstance(g.operand, ast.Name) and g.operand.id in recs for g in guards)
        sized = size is not None and any(size in {x.id for x in ast.walk(g) if isinstance(x, ast.Name)} for g in guards) and not any(
            isinstance(x, ast.Attribute) and isinstance(x.value, ast.Name) and x.value.id in recs and x.attr in ("number", "wire_type") for g in guards for x in ast.walk(g))
        name = f"load:leaves-record-loop-only-at-the-end[{n_br}]"
        if eof or sized:
            ctx.proved(rule, name, mod.loc(br), "reader exhausted" if eof else "declared size exhausted")
        elif any(isinstance(x, ast.Attribute) and isinstance(x.value, ast.Name) and x.value.id in recs for g in guards for x in ast.walk(g)):
            ctx.refuted(rule, name, (texts[0] if texts else "unconditional")[:60], mod.loc(br),
                        f"the record loop is left when {texts[0] if texts else 'reached'} although the reader may hold further records: whatever follows (known fields included) is not decoded",
                        "records: unknown #9, then known #1")
        else:
            ctx.inconclusive(rule, name, f"exit of the record loop under {texts} not recognised as end of input", mod.loc(br))


# ---------------------------------------------------------------------------
# M8 - a rejection raised while decoding reaches the caller


DECODE_ENTRY = ("Message.parse", "Message.load", "Message.FromString", "parse_fields", "load_fields")
DECODE_CALLEES = {"parse", "load", "FromString", "parse_fields", "load_fields", "load_varint", "decode_varint", "_postprocess_single", "_load_varint", "_parse"}
_CATCHES_VALUE_ERROR = {"ValueError", "Exception", "BaseException"}


def _always_raises(body: List[ast.stmt]) -> bool:
    """every way through `body` ends in a raise"""
    for st in body:
        if isinstance(st, ast.Raise):
            return True
        if isinstance(st, ast.If) and st.orelse and _always_raises(st.body) and _always_raises(st.orelse):
            return True
        if isinstance(st, (ast.With,)) and _always_raises(st.body):
            return True
    return False


def _decode_graph(mod: Module) -> Dict[str, ast.AST]:
    """the functions of the runtime module reachable from the parse entry points through calls of module functions, methods on
    self / cls and the nested-decode method names"""
    seen: Dict[str, ast.AST] = {}
    work = [q for q in DECODE_ENTRY if mod.has(q)]
    by_last: Dict[str, List[str]] = {}
    for q in mod.defs:
        by_last.setdefault(q.split(".")[-1], []).append(q)
    while work:
        q = work.pop()
        if q in seen:
            continue
        fn = mod.func(q)
        seen[q] = fn
        for c in ast.walk(fn):
            if not isinstance(c, ast.Call):
                continue
            f = c.func
            name = f.id if isinstance(f, ast.Name) else f.attr if isinstance(f, ast.Attribute) else None
            if name is None:
                continue
            if isinstance(f, ast.Name) and mod.has(name) and isinstance(mod.defs[name][0], (ast.FunctionDef, ast.AsyncFunctionDef)):
                work.append(name)
            elif isinstance(f, ast.Attribute) and (name in DECODE_CALLEES or (isinstance(f.value, ast.Name) and f.value.id in ("self", "cls"))):
                for cand in by_last.get(name, []):
                    if "." in cand and isinstance(mod.defs[cand][0], (ast.FunctionDef, ast.AsyncFunctionDef)) and (cand.startswith("Message.") or cand.startswith("_")):
                        work.append(cand)
    return seen


def rule_M8(ctx, rule: str = "M8") -> None:
    """what a nested decode rejects, the outer decode rejects: no `try` on the parse call graph that encloses a decode call has a
    handler for ValueError (or a superclass) that can complete without raising - the decoders signal field number 0, an
    invalid wire type and an over-long varint with ValueError, and a handler that turns it into a value decodes malformed
    input into a message"""
    mod = ctx.repo.mod(M_INIT)
    graph = _decode_graph(mod)
    ctx.analysed(*sorted(graph))
    n_try = 0
    bad = []
    for q, fn in sorted(graph.items()):
        for t in ast.walk(fn):
            if not isinstance(t, ast.Try):
                continue
            calls = []
            for st in t.body:
                for c in ast.walk(st):
                    if isinstance(c, ast.Call):
                        f = c.func
                        name = f.id if isinstance(f, ast.Name) else f.attr if isinstance(f, ast.Attribute) else None
                        if name in DECODE_CALLEES or (isinstance(f, ast.Name) and name in graph):
                            calls.append(ast.unparse(c)[:60])
            if not calls:
                continue
            n_try += 1
            for h in t.handlers:
                types = ["<bare>"] if h.type is None else [ast.unparse(e).split(".")[-1] for e in (h.type.elts if isinstance(h.type, ast.Tuple) else [h.type])]
                caught = [x for x in types if x in _CATCHES_VALUE_ERROR or x == "<bare>"]
                if caught and not _always_raises(h.body):
                    bad.append((q, h, caught, calls[0]))
    ctx.count(len(graph))
    name = "decode-graph:rejections-propagate"
    if bad:
        q, h, caught, call = bad[0]
        ctx.refuted(rule, name, f"{q}:{','.join(caught)}", mod.loc(h),
                    f"{q} wraps the nested decode `{call}` in a try whose handler for {caught} can complete normally: the ValueError with which the nested decoder rejects field number 0, "
                    "an invalid wire type or an over-long varint is swallowed and the malformed payload is decoded into a message with a substituted value",
                    "a Timestamp / Duration sub-message whose payload is b'\\x00\\x00' (field number 0)")
    else:
        ctx.proved(rule, name, mod.rel, f"{len(graph)} functions on the parse call graph, {n_try} try statements around decode calls, none completes normally after catching ValueError")
    ctx.floor(rule, "functions on the parse call graph", len(graph), 6)


def rule_M9(ctx, rule: str = "M9") -> None:
    """what is done with one occurrence of a field is decided from that occurrence: in the record loop of Message.load, the
    locals that the decoding reads (the field's name, its metadata, whether it is repeated - whatever reaches
    _wire_type_matches / _postprocess_single / the store) are assigned in the same iteration on every path to the read.  A
    value left over from the previous occurrence (a lookup skipped 'because the number is the same') lets an occurrence with
    another wire type through the match test it never ran"""
    from .presence import _d6_loop
    mod = ctx.repo.mod(M_INIT)
    load = mod.func("Message.load")
    ctx.analysed("Message.load")
    g = CFG(load, implicit_exc=False)
    sites = _advance_sites(g, load)
    name = "load:occurrence-decided-from-itself"
    if not sites:
        ctx.inconclusive(rule, name, "record loop not found", mod.loc(load))
        return
    found = []
    n_reads = 0
    for head, _ in sites:
        loop_stmt = head.stmt if isinstance(head.stmt, ast.For) else next((lp for lp in ast.walk(load) if isinstance(lp, (ast.While, ast.For)) and any(x is head.stmt for x in ast.walk(lp))), None)
        if loop_stmt is None:
            ctx.inconclusive(rule, name, "the statement that takes the next record is not inside a loop", mod.loc(load))
            return
        coll = []
        _, n = _d6_loop(g, head, loop_stmt, coll)
        n_reads += n
        found += coll
    # only what feeds the decoding counts: byte counters and the like are carried on purpose
    sinks = ("_wire_type_matches", "_postprocess_single", "setattr", "getattr", "_get_field_default", "meta_by_field_name", "default_gen", "cls_by_field")
    decisive = [(v, nd) for v, nd in found if any(sk in ast.unparse(nd.stmt) if not isinstance(nd.stmt, (ast.If, ast.While, ast.For)) else sk in ast.unparse(getattr(nd.stmt, "test", None) or nd.stmt.iter) for sk in sinks)
                or (isinstance(nd.stmt, (ast.If, ast.While)) and ".proto_type" in ast.unparse(nd.stmt.test))]
    ctx.count(n_reads)
    if decisive:
        v, nd = decisive[0]
        ctx.refuted(rule, name, f"carried:{v}", f"{mod.rel}:{nd.line}",
                    f"in the record loop of load the local `{v}` is read at line {nd.line} on a path of the iteration that has not assigned it: it still holds what was looked up for the previous "
                    "occurrence, so an occurrence can be decoded with metadata (and a wire-type verdict) that was established for another one",
                    "two occurrences of one field number, the second with a wire type that does not fit the declared type")
    else:
        ctx.proved(rule, name, mod.loc(load), f"{n_reads} reads of loop-assigned locals; none that feeds the decoding is carried over")
