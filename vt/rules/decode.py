"""Decoder rules shared by C08 (U1-U4), C10 (S1-S4), C16 (N3), C17 (M1-M5)."""
from __future__ import annotations

import ast
from typing import Any, Dict, List, Optional, Set, Tuple

from ..absint import Interp, Path
from ..cfg import CFG, Node, normal_edge, own_nodes
from ..fieldloop import val_text
from ..src import AnalysisError, M_INIT, Module, fold, _Unfoldable
from ..sym import A, C, N, OP, Sym, dotted, from_ast, show, simplify, subst, walk, contains

VALID_WIRE = (0, 1, 2, 5)
GROUP_WIRE = (3, 4)
INVALID_WIRE = (6, 7)


# ---------------------------------------------------------------------------
# generic: stream reads and their length guards


def _names_loaded(node: ast.AST) -> Set[str]:
    return {n.id for n in own_nodes(node) if isinstance(n, ast.Name) and isinstance(n.ctx, ast.Load)}


def _names_stored(node: ast.AST) -> Set[str]:
    out = set()
    for n in own_nodes(node):
        if isinstance(n, ast.Name) and isinstance(n.ctx, ast.Store):
            out.add(n.id)
    return out


def _read_sites(fn: ast.AST) -> List[Tuple[ast.Assign, str, ast.AST]]:
    """assignments `X = <stream>.read(N)` -> (stmt, X, N-expression)"""
    out = []
    for st in ast.walk(fn):
        if isinstance(st, ast.Assign) and len(st.targets) == 1 and isinstance(st.targets[0], ast.Name) \
                and isinstance(st.value, ast.Call) and isinstance(st.value.func, ast.Attribute) \
                and st.value.func.attr == "read" and len(st.value.args) == 1:
            out.append((st, st.targets[0].id, st.value.args[0]))
    return out


def _short_polarity(test: ast.AST, var: str, nexpr: ast.AST, consts: Dict[str, Any]) -> Optional[bool]:
    """If `test` is a recognised length test of `var` against the requested size,
    return the truth value of the test on a SHORT read; else None."""
    ntext = ast.unparse(nexpr)
    try:
        nconst = fold(nexpr, consts)
    except _Unfoldable:
        nconst = None

    def res(nm: str):
        return None

    t = simplify(from_ast(test))
    neg = False
    while t[0] == "op" and t[1] == "not":
        neg = not neg
        t = t[2]
    ln = ("call", N("len"), (N(var),), ())
    nsym = simplify(from_ast(nexpr))
    val: Optional[bool] = None
    if t == N(var) and nconst == 1:
        val = False            # truthy(var) is False on an empty (short) read of 1 byte
    elif t[0] == "op" and t[1] == "==" and t[2] == ln and t[3] == nsym:
        val = False            # len(var) == N is False when short
    elif t[0] == "op" and t[1] == "==" and t[2] == nsym and t[3] == ln:
        val = False
    elif t[0] == "op" and t[1] == "<" and t[2] == ln and t[3] == nsym:
        val = True             # len(var) < N is True when short
    elif t[0] == "op" and t[1] == "<" and t[2] == nsym and t[3] == ln:
        return None            # N < len(var): never true for a read(N); not a short test
    elif t[0] == "op" and t[1] == "==" and t[2] == ln and t[3] == C(0) and nconst == 1:
        val = True
    elif t[0] == "op" and t[1] == "==" and t[2] == N(var) and t[3] == C(b"") and nconst == 1:
        val = True
    elif t == ln and nconst == 1:
        val = False
    if val is None:
        return None
    return (not val) if neg else val


def read_guards(mod: Module, fn: ast.AST) -> List[Dict[str, Any]]:
    """For every `X = stream.read(N)`: is every use of X preceded, on every path,
    by a length test whose short branch raises?"""
    g = CFG(fn, implicit_exc=False)
    out = []
    for st, var, nexpr in _read_sites(fn):
        rnodes = g.nodes_for(st)
        rec: Dict[str, Any] = {"var": var, "line": st.lineno, "n": ast.unparse(nexpr), "guarded": False, "why": "", "exc": set(), "stmt": st}
        # candidate guards: test nodes whose condition is a recognised short test of var
        guards: Dict[int, bool] = {}
        for nd in g.nodes:
            if nd.kind == "test" and isinstance(nd.stmt, ast.If):
                pol = _short_polarity(nd.stmt.test, var, nexpr, mod.consts)
                if pol is not None:
                    guards[nd.id] = pol
        ok = True
        why = ""
        for rn in rnodes:
            # region of this read: nodes reachable before var is re-assigned
            kills = {nd.id for nd in g.nodes if nd.stmt is not None and nd.kind in ("stmt", "loop") and nd.id != rn.id and var in _names_stored(nd.stmt)} | {rn.id}
            region = g.reach_from_successors(rn.id, avoid=kills, labels=normal_edge)
            uses = [g.nodes[i] for i in region if g.nodes[i].stmt is not None and g.nodes[i].kind in ("stmt", "test", "loop")
                    and var in _names_loaded(g.nodes[i].stmt) and i not in guards]
            if not uses:
                continue
            gset = set(guards) & region
            for u in uses:
                if not g.must_pass(rn.id, u.id, gset | kills - {u.id}, labels=normal_edge) or not gset:
                    ok = False
                    why = f"use at line {u.line} reachable without a length test of `{var}` against {rec['n']}"
                    break
            if not ok:
                break
            # the short branch of each guard must end in raise without using var / yielding / returning
            for gid in gset:
                short_label = "true" if guards[gid] else "false"
                starts = [m for m, lab in g.succ[gid] if lab == short_label]
                reach = g.reachable(starts, avoid=kills, labels=normal_edge)
                bad = [g.nodes[i] for i in reach if i == g.exit.id or (g.nodes[i].stmt is not None and g.nodes[i].kind == "stmt" and (
                    var in _names_loaded(g.nodes[i].stmt) or any(isinstance(x, (ast.Yield, ast.YieldFrom)) for x in own_nodes(g.nodes[i].stmt))))]
                # nodes after which the loop continues with the next read are fine only if they raise first
                leaves_loop = any(i in kills for i in g.reachable(starts, labels=normal_edge) if i != gid) and False
                raises = [g.nodes[i] for i in reach if isinstance(g.nodes[i].stmt, ast.Raise)]
                if bad or not raises:
                    ok = False
                    why = f"short-read branch of the test at line {g.nodes[gid].line} does not raise"
                    break
                # does any path from the short branch escape without raising (falls back into the loop)?
                esc = g.reachable(starts, avoid={r.id for r in raises}, labels=normal_edge)
                if g.exit.id in esc or any(k in esc for k in kills):
                    ok = False
                    why = f"short-read branch of the test at line {g.nodes[gid].line} can continue without raising"
                    break
                for r in raises:
                    e = r.stmt.exc  # type: ignore[union-attr]
                    if e is not None:
                        rec["exc"].add(ast.unparse(e.func if isinstance(e, ast.Call) else e))
            if not ok:
                break
        rec["guarded"] = ok
        rec["why"] = why
        out.append(rec)
    return out


def slice_sites(fn: ast.AST) -> List[Tuple[ast.stmt, ast.Subscript]]:
    """payload slices value[i : i + N] / value[i : j] taken from a buffer inside a decode loop"""
    out = []
    for st in ast.walk(fn):
        if isinstance(st, (ast.Assign, ast.AugAssign, ast.Expr)):
            for n in own_nodes(st):
                if isinstance(n, ast.Subscript) and isinstance(n.slice, ast.Slice) and n.slice.lower is not None and n.slice.upper is not None \
                        and isinstance(n.ctx, ast.Load):
                    out.append((st, n))
    return out
