"""placeholder"""
def read_guards(mod, fn):
    return []
