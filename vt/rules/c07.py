"""C07 - oneof exclusivity (O1-O4 + D1)."""
from . import presence
from .c14 import rule_V5

PROP = "C07"
TECHNIQUE = "who-may-write (package-wide store scan), all-path bookkeeping in __setattr__ by E2/CFG, access-gate ordering, emitter truth tables"
EXPLANATION = (
    "Static discipline check that makes the oneof invariant inductive: a package-wide scan shows that the selection table and the raw "
    "field slots are written only by the enumerated functions (a new writer elsewhere is a violation; a positive control is flagged on "
    "every run); Message.__setattr__ is shown to record the selection, reset every sibling and perform the final store on all paths, "
    "independent of the value; __getattribute__ compares with the current member before any value is returned; every emitter keeps a "
    "selected member that holds its default. The invariant over arbitrary histories is not decided."
)
RULE_TEXT = "obligation = (rule, function / writer / emitter branch); evaluations = abstract paths + scanned stores; non-trivial = distinct constructs"


def run(ctx) -> None:
    from .c14 import rule_V8
    ctx.rules_run.append("V8")
    rule_V8(ctx)            # a copy keeps the selected member even when it is an untouched default message
    from .c14 import rule_V11
    ctx.rules_run.append("V11")
    rule_V11(ctx)           # a pickle round trip keeps the selection: it goes through the encoding on every path
    ctx.rules_run.append("V5")
    rule_V5(ctx)            # copies must not share the selection table with the original
    from . import jsonrules
    ctx.rules_run.append("J4")
    jsonrules.rule_J4(ctx)  # a member named in a dict / JSON load is selected whatever its value ({} / 0 / ""): only null is skipped
    for name, fn in (("O1", presence.rule_O1), ("O2", presence.rule_O2), ("O3", presence.rule_O3), ("O4", presence.rule_O4), ("O5", presence.rule_O5), ("O6", presence.rule_O6), ("O7", presence.rule_O7), ("O8", presence.rule_O8), ("D1", presence.rule_D1)):
        ctx.rules_run.append(name)
        fn(ctx)
