"""C16 - scalar codec primitives (N1-N4)."""
from . import codec, varint

PROP = "C16"
TECHNIQUE = "constant/guard agreement by E2 path summaries, loop-bound derivation from induction variables, CFG dominance for EOF/bound tests"
EXPLANATION = (
    "Static agreement of the varint codec's constants and guards: rejection thresholds, widening modulus, group width, masks and "
    "continuation bit are extracted from the path summaries of dump_varint / size_varint / load_varint and compared with each other "
    "and with the base-128 spec; the decode loop's trip bound is derived from its induction variable and guard (10 bytes); dominance "
    "queries on the CFG show the bound test precedes each read and an empty read raises before any use. Struct formats are compared "
    "with the reference encoder's source. Decides constants, bounds and guards; not inverse laws for every integer."
)
RULE_TEXT = "obligation = (rule, constant / guard / table entry); evaluations = abstract paths + CFG queries; non-trivial = distinct constants or guards"


def run(ctx) -> None:
    for name, fn in (("N1", varint.rule_N1), ("N8", varint.rule_N8), ("N2", varint.rule_N2), ("N3", varint.rule_N3), ("N7", varint.rule_N7), ("N4", codec.rule_N4), ("N4f", codec.rule_W1f), ("T1", codec.rule_T1), ("Z1", codec.rule_Z1), ("T6", codec.rule_T6)):
        ctx.rules_run.append(name)
        fn(ctx)
    ctx.floor("N1", "constants", len([o for o in ctx.obs if o.rule == "N1"]), 8)
    ctx.floor("N4", "table entries", len([o for o in ctx.obs if o.rule == "N4"]), 8)
    ctx.assume("struct.pack/unpack implement IEEE-754 / two's complement little-endian for the given format characters")
