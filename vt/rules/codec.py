"""Codec table rules shared by C01 (T1-T5), C02 (W1-W4), C16 (N4), C20 (T2)."""
from __future__ import annotations

import ast
from typing import Any, Dict, List, Optional, Tuple

from ..absint import Interp, Path
from ..fieldloop import TYPE_NAMES, META, VALUE, FIELD_NAME, interp_for, type_binding, val_text
from ..numeric import INF, interval
from ..refsrc import (Reference, SPEC_PACKABLE, SPEC_SIGNED_VARINT, SPEC_STRUCT_SIZE, SPEC_ZIGZAG)
from ..src import AnalysisError, M_INIT
from ..sym import A, C, N, OP, Sym, contains, dotted, show, simplify, walk

SCALARS = [t for t in TYPE_NAMES]
WIDTH = {1: 8, 5: 4}


def _inline_pack_fmt(mod) -> Dict[str, Any]:
    out = {"_pack_fmt": (mod, mod.func("_pack_fmt"))} if mod.has("_pack_fmt") else {}
    # small private helpers called by the per-type encoder/decoder are part of the dispatch (an extracted helper must not
    # change any verdict): inline them
    for q in ("_preprocess_single", "Message._postprocess_single"):
        for c in ast.walk(mod.func(q)):
            if isinstance(c, ast.Call) and isinstance(c.func, ast.Name) and c.func.id.startswith("_") and mod.has(c.func.id) \
                    and c.func.id not in ("_get_wrapper", "_preprocess_single", "_serialize_single") \
                    and any(isinstance(x, ast.FunctionDef) for x in mod.get_all(c.func.id)):
                h = mod.func(c.func.id)
                if len(h.body) <= 8 and not any(isinstance(n, (ast.For, ast.While)) for n in ast.walk(h)):
                    out[c.func.id] = (mod, h)
    return out


def _has_arith_on(s: Sym, leaf: Sym) -> bool:
    for t in walk(s):
        if t[0] == "op" and t[1] in ("<<", ">>", "^", "&", "|", "+", "-", "~", "neg", "*", "%", "//") and contains(t, leaf):
            return True
        if t[0] == "ife" and contains(t, leaf):
            return True
    return False


def classify_enc(ret: Optional[Sym], value: Sym) -> Tuple[str, Any]:
    if ret is None:
        return "none", None
    if ret == value:
        return "raw", None
    if ret == C(b""):
        return "empty", None
    if ret[0] == "call":
        name = dotted(ret[1])
        if name == "encode_varint" and len(ret[2]) == 1:
            arg = ret[2][0]
            if arg == value:
                return "varint-plain", arg
            if contains(arg, value) and _has_arith_on(arg, value):
                return "varint-transformed", arg
            return "varint-other", arg
        if name == "struct.pack" and len(ret[2]) == 2 and ret[2][1] == value:
            f = ret[2][0]
            return "struct", f[1] if f[0] == "c" else show(f)
        if ret[1][0] == "a" and ret[1][2] == "encode" and ret[1][1] == value:
            enc = ret[2][0][1] if ret[2] and ret[2][0][0] == "c" else None
            return "text", (enc or "utf-8").lower().replace("_", "-")
        if name == "bytes" and len(ret[2]) == 1:
            return "submessage", ret[2][0]
    return "other", show(ret)


def classify_dec(ret: Optional[Sym], value: Sym) -> Tuple[str, Any]:
    if ret is None:
        return "none", None
    if ret == value:
        return "plain", None
    if ret[0] == "call":
        name = dotted(ret[1])
        base = name.split(".")[-1]
        if base == "try_value" and len(ret[2]) == 1:
            return "enum", ret[2][0]
        if name == "str" and ret[2] and ret[2][0] == value:
            enc = ret[2][1][1] if len(ret[2]) > 1 and ret[2][1][0] == "c" else dict(ret[3]).get("encoding", C("utf-8"))[1]
            return "text", str(enc).lower().replace("_", "-")
        if ret[1][0] == "a" and ret[1][2] == "decode" and ret[1][1] == value:
            enc = ret[2][0][1] if ret[2] and ret[2][0][0] == "c" else "utf-8"
            return "text", str(enc).lower().replace("_", "-")
        if base == "parse" and len(ret[2]) == 1 and ret[2][0] == value:
            return "submessage", ret[1][1]
        if base in ("to_datetime", "to_timedelta"):
            return "submessage-conv", base
    if ret[0] == "a" and ret[1][0] == "call" and dotted(ret[1][1]).split(".")[-1] == "parse":
        return "submessage-attr", ret[2]
    if ret[0] == "item" and ret[2] == 0 and ret[1][0] == "call" and dotted(ret[1][1]) == "struct.unpack":
        ret = ("sub", ret[1], C(0))         # (x,) = struct.unpack(..) is struct.unpack(..)[0]
    if ret[0] == "sub" and ret[1][0] == "call" and dotted(ret[1][1]) == "struct.unpack" and ret[2] == C(0):
        c = ret[1]
        if len(c[2]) == 2 and c[2][1] == value:
            f = c[2][0]
            return "struct", f[1] if f[0] == "c" else show(f)
    if ret[0] == "call" and dotted(ret[1]) == "int.from_bytes" and ret[2] and ret[2][0] == value:
        kw = dict(ret[3])
        order = ret[2][1] if len(ret[2]) > 1 else kw.get("byteorder", C("big"))
        signed = kw.get("signed", C(False))
        return "intbytes", (order[1] if order[0] == "c" else show(order), signed[1] if signed[0] == "c" else show(signed))
    if ret[0] == "op" and ret[1] == "<" and ret[2] == C(0) and ret[3] == value:
        return "bool", None
    if ret[0] == "op" and ret[1] == "not" and ret[2] == OP("==", value, C(0)):
        return "bool", None
    if ret[0] == "call" and dotted(ret[1]) == "bool" and ret[2] == (value,):
        return "bool", None
    if contains(ret, value) and _has_arith_on(ret, value):
        return "arith", ret
    return "other", show(ret)


class CodecModel:
    """per-type summary of the encoder and decoder dispatch, extracted by E2"""

    def __init__(self, ctx):
        self.ctx = ctx
        mod = ctx.repo.mod(M_INIT)
        self.mod = mod
        ctx.analysed("_preprocess_single", "_serialize_single", "Message._postprocess_single", "_pack_fmt", "load_fields", "Message.load")
        self.enc: Dict[str, List[Tuple[Dict, str, Any]]] = {}
        self.wire: Dict[str, Any] = {}
        self.dec: Dict[Tuple[str, int], List[Tuple[Dict, str, Any, Optional[Sym]]]] = {}
        self.reader: Dict[int, Any] = {}
        inl = _inline_pack_fmt(mod)
        pre = mod.func("_preprocess_single")
        ser = mod.func("_serialize_single")
        post = mod.func("Message._postprocess_single")
        pparams = [a.arg for a in pre.args.args]
        self.value = N(pparams[2])
        sparams = [a.arg for a in ser.args.args]
        self.field_number = N(sparams[0])
        poparams = [a.arg for a in post.args.args]
        self.post_params = poparams
        self.dvalue = N(poparams[4])
        n = 0
        for t in TYPE_NAMES:
            paths = Interp(mod, bindings={N(pparams[0]): t}, inline=inl).run(pre)
            n += len(paths)
            self.enc[t] = []
            for p in paths:
                if p.outcome == "raise":
                    self.enc[t].append((p.valuation, "raise", dotted(p.value[1]) if p.value and p.value[0] == "call" else ""))
                else:
                    k, d = classify_enc(p.value, self.value)
                    self.enc[t].append((p.valuation, k, d))
            # wire constant from the key expression
            spaths = Interp(mod, bindings={N(sparams[1]): t}).run(ser)
            n += len(spaths)
            ws = set()
            for p in spaths:
                if p.outcome == "raise":
                    ws.add("raise")
                    continue
                found = False
                for e in p.calls("encode_varint"):
                    w = _key_wire(e.data[2][0], self.field_number)
                    if w is not None:
                        ws.add(w)
                        found = True
                if not found:
                    ws.add("no-key")
            self.wire[t] = ws
            for w in (0, 1, 2, 5):
                dpaths = Interp(mod, bindings={N(poparams[1]): w, A(N(poparams[2]), "proto_type"): t}, inline=inl, fork_ifexp=True).run(post)
                n += len(dpaths)
                self.dec[(t, w)] = []
                for p in dpaths:
                    if p.outcome == "raise":
                        self.dec[(t, w)].append((p.valuation, "raise", dotted(p.value[1]) if p.value and p.value[0] == "call" else "", None))
                    else:
                        k, d = classify_dec(p.value, self.dvalue)
                        self.dec[(t, w)].append((p.valuation, k, d, p.value))
        ctx.count(n)
        self._reader()

    def _reader(self) -> None:
        """what load_fields reads for each wire type"""
        mod = self.mod
        lf = mod.func("load_fields")
        register_helpers(mod)
        wt = wire_type_local(lf)
        for w in range(8):
            from .decode import exact_readers
            paths = Interp(mod, local_bindings={wt: w}, fresh_calls=["read", "load_varint"] + list(exact_readers(mod))).run(lf)
            self.ctx.count(len(paths))
            kinds = set()
            for p in paths:
                ys = [e for e in p.events if e.kind == "yield"]
                if not ys:
                    kinds.add(("no-yield", p.outcome, dotted(p.value[1]) if p.value is not None and p.value[0] == "call" else ""))
                    continue
                y = ys[0].data
                val = _kw(y, "value")
                kinds.add(("yield", _payload_kind(val), None))
            self.reader[w] = kinds

    # convenience ----------------------------------------------------------
    def enc_kinds(self, t: str) -> List[str]:
        return sorted({k for _, k, _ in self.enc[t]})

    def wire_of(self, t: str) -> Optional[int]:
        ws = self.wire[t]
        ints = {w for w in ws if isinstance(w, int)}
        return next(iter(ints)) if len(ints) == 1 else None


def _tag_split_via_helper(fn: ast.AST, want: str) -> Optional[str]:
    """`number, wire_type = helper(tag)` where the module-level helper returns `(tag >> 3, tag & 7)`"""
    import builtins as _b
    mod = getattr(fn, "_vt_module", None)
    for n in ast.walk(fn):
        if isinstance(n, ast.Assign) and len(n.targets) == 1 and isinstance(n.targets[0], ast.Tuple) and isinstance(n.value, ast.Call) and isinstance(n.value.func, ast.Name):
            helper = _HELPERS.get(n.value.func.id)
            if helper is None:
                continue
            for r in ast.walk(helper):
                if isinstance(r, ast.Return) and isinstance(r.value, ast.Tuple) and len(r.value.elts) == len(n.targets[0].elts):
                    for tgt, e in zip(n.targets[0].elts, r.value.elts):
                        if not isinstance(tgt, ast.Name) or not isinstance(e, ast.BinOp):
                            continue
                        if want == "wire" and isinstance(e.op, ast.BitAnd) and any(isinstance(x, ast.Constant) and x.value == 7 for x in (e.left, e.right)):
                            return tgt.id
                        if want == "number" and isinstance(e.op, ast.RShift) and isinstance(e.right, ast.Constant) and e.right.value == 3:
                            return tgt.id
    return None


_HELPERS: Dict[str, ast.AST] = {}


def register_helpers(mod) -> None:
    """module-level functions, for resolving one-level helper indirections in the readers"""
    _HELPERS.clear()
    for st in mod.tree.body:
        if isinstance(st, ast.FunctionDef):
            _HELPERS[st.name] = st


def _tag_split_via_divmod(fn: ast.AST, want: str) -> Optional[str]:
    """`number, wire_type = divmod(tag, 8)`"""
    for n in ast.walk(fn):
        if isinstance(n, ast.Assign) and len(n.targets) == 1 and isinstance(n.targets[0], ast.Tuple) and len(n.targets[0].elts) == 2 \
                and isinstance(n.value, ast.Call) and ast.unparse(n.value.func) == "divmod" and len(n.value.args) == 2 \
                and isinstance(n.value.args[1], ast.Constant) and n.value.args[1].value == 8:
            t = n.targets[0].elts[1 if want == "wire" else 0]
            if isinstance(t, ast.Name):
                return t.id
    return None


def wire_type_local(fn: ast.AST) -> str:
    """the local that holds `tag & 0x7`"""
    via = _tag_split_via_helper(fn, "wire") or _tag_split_via_divmod(fn, "wire")
    if via:
        return via
    for n in ast.walk(fn):
        if isinstance(n, ast.Assign) and len(n.targets) == 1 and isinstance(n.targets[0], ast.Name) and isinstance(n.value, ast.BinOp) \
                and isinstance(n.value.op, ast.BitAnd):
            for side in (n.value.left, n.value.right):
                if isinstance(side, ast.Constant) and side.value == 7:
                    return n.targets[0].id
    raise AnalysisError(f"{getattr(fn, 'name', '?')}: no `tag & 0x7` assignment found")


def field_number_local(fn: ast.AST) -> str:
    via = _tag_split_via_helper(fn, "number") or _tag_split_via_divmod(fn, "number")
    if via:
        return via
    for n in ast.walk(fn):
        if isinstance(n, ast.Assign) and len(n.targets) == 1 and isinstance(n.targets[0], ast.Name) and isinstance(n.value, ast.BinOp) \
                and isinstance(n.value.op, ast.RShift) and isinstance(n.value.right, ast.Constant) and n.value.right.value == 3:
            return n.targets[0].id
    raise AnalysisError(f"{getattr(fn, 'name', '?')}: no `tag >> 3` assignment found")


def _kw(call: Sym, name: str) -> Optional[Sym]:
    if call[0] != "call":
        return None
    for k, v in call[3]:
        if k == name:
            return v
    return None


def _payload_kind(val: Optional[Sym]) -> str:
    if val is None:
        return "?"
    if val == C(None):
        return "None"
    if val[0] == "item" and val[1][0] == "call" and dotted(val[1][1]) in ("load_varint", "decode_varint"):
        return "varint"
    if val[0] == "call" and (dotted(val[1]).endswith(".read") or dotted(val[1]).startswith("_read")) and val[2]:
        n = val[2][-1] if not dotted(val[1]).endswith(".read") else val[2][0]
        if n[0] == "c":
            return f"read:{n[1]}"
        return "read:len"
    if val[0] == "sub" and val[2][0] == "slice":
        lo, hi = val[2][1], val[2][2]
        if hi is not None and lo is not None and hi[0] == "c" and lo[0] == "c" and isinstance(hi[1], int) and isinstance(lo[1], int):
            return f"read:{hi[1] - lo[1]}"
        if hi is not None and lo is not None and hi[0] == "op" and hi[1] == "+" and lo in hi[2:]:
            other = [x for x in hi[2:] if x != lo]
            if len(other) == 1 and other[0][0] == "c":
                return f"read:{other[0][1]}"
            return "read:len"
    return "other:" + show(val)


def _key_wire(arg: Sym, fn: Sym) -> Optional[int]:
    """(field_number << 3) | k  ->  k ; field_number << 3 -> 0"""
    sh = OP("<<", fn, C(3))
    if arg == sh:
        return 0
    if arg[0] == "op" and arg[1] in ("|", "+") and len(arg) == 4:
        a, b = arg[2], arg[3]
        if a == sh and b[0] == "c" and isinstance(b[1], int):
            return b[1]
        if b == sh and a[0] == "c" and isinstance(a[1], int):
            return a[1]
    return None


_model_cache: Dict[int, CodecModel] = {}


def model(ctx) -> CodecModel:
    key = id(ctx.repo)
    if key not in _model_cache:
        _model_cache[key] = CodecModel(ctx)
    return _model_cache[key]


# ---------------------------------------------------------------------------
# rules


def rule_T1(ctx, rule: str = "T1", only: Optional[Tuple[str, ...]] = None) -> None:
    """encoder <-> decoder dispatch agreement for every type"""
    m = model(ctx)
    mod = m.mod
    ref = Reference()
    loc_e = mod.loc(mod.func("_preprocess_single"))
    loc_d = mod.loc(mod.func("Message._postprocess_single"))
    zig_dec: Dict[str, Any] = {}
    for t in TYPE_NAMES:
        if t == "map" or (only is not None and t not in only):
            continue
        w = m.wire_of(t)
        if w is None:
            ctx.refuted(rule, f"wire[{t}]", f"keys={sorted(map(str, m.wire[t]))}", mod.loc(mod.func("_serialize_single")),
                        f"_serialize_single does not write a unique wire type for {t}: {m.wire[t]}")
            continue
        encs = [(v, k, d) for v, k, d in m.enc[t] if k != "raise"]
        kinds = sorted({k for _, k, _ in encs})
        decs = m.dec[(t, w)]
        dkinds = sorted({k for _, k, _, _ in decs})
        ok = True
        detail = f"enc={kinds} wire={w} dec={dkinds}"
        why = ""
        if t in ("enum", "bool", "int32", "int64", "uint32", "uint64", "sint32", "sint64"):
            exp_enc = "varint-transformed" if t in SPEC_ZIGZAG else "varint-plain"
            if kinds != [exp_enc]:
                ok, why = False, f"{t} must be encoded as {exp_enc}, found {kinds}"
            elif w != 0:
                ok, why = False, f"{t} written with wire type {w}"
            else:
                allowed = {"enum": {"enum"}, "bool": {"bool"}, "uint32": {"plain"}, "uint64": {"plain"},
                           "int32": {"arith"}, "int64": {"arith"}, "sint32": {"arith"}, "sint64": {"arith"}}[t]
                if not set(dkinds) <= allowed or not dkinds:
                    ok, why = False, f"decoder branch for ({t}, varint) is {dkinds}, expected {sorted(allowed)}"
            if t in ("sint32", "sint64", "int32", "int64") and len(decs) == 1:
                zig_dec[t] = decs[0][3]
        elif t in ("float", "double", "fixed32", "fixed64", "sfixed32", "sfixed64"):
            fe = [d for _, k, d in encs if k == "struct"]
            fd = [d for _, k, d, _ in decs if k == "struct"]
            ib = [d for _, k, d, _ in decs if k == "intbytes"]
            if kinds == ["struct"] and dkinds == ["intbytes"] and t not in ("float", "double") and isinstance(fe[0], str):
                # int.from_bytes(value, "little", signed=S) is the inverse of struct.pack("<I/<i/<Q/<q") for integers
                signed_fmt = fe[0][-1:].islower()
                if any(o != ("little", signed_fmt) for o in ib):
                    ok, why = False, f"packed with {fe} but decoded with int.from_bytes{ib}: byte order / signedness differ"
            elif kinds != ["struct"] or dkinds != ["struct"]:
                ok, why = False, f"fixed-width type must use struct on both sides: enc={kinds} dec={dkinds}"
            elif fe != fd:
                ok, why = False, f"struct format differs: pack {fe} vs unpack {fd}"
            if not ok:
                pass
            elif w not in WIDTH or not isinstance(fe[0], str) or SPEC_STRUCT_SIZE.get(fe[0][-1:]) != WIDTH.get(w):
                ok, why = False, f"format {fe} does not have the width of wire type {w}"
            else:
                rk = {x for x in m.reader.get(w, set()) if x[0] == "yield"}
                if ("yield", f"read:{WIDTH[w]}", None) not in rk or len(rk) != 1:
                    ok, why = False, f"load_fields reads {sorted(map(str, rk))} for wire type {w}, expected {WIDTH[w]} bytes"
        elif t == "string":
            if kinds != ["text"] or dkinds != ["text"]:
                ok, why = False, f"string must be text-encoded on both sides: enc={kinds} dec={dkinds}"
            else:
                ee = {d for _, k, d in encs}
                dd = {d for _, k, d, _ in decs}
                if ee != dd or ee != {"utf-8"}:
                    ok, why = False, f"text encodings differ or are not utf-8: {ee} vs {dd}"
            if ok and w != 2:
                ok, why = False, f"string written with wire type {w}"
        elif t == "bytes":
            if kinds != ["raw"] or dkinds != ["plain"] or w != 2:
                ok, why = False, f"bytes must pass through unchanged on wire type 2: enc={kinds} wire={w} dec={dkinds}"
        elif t == "message":
            if "submessage" not in kinds or w != 2 or (set(kinds) - {"submessage", "empty"}):
                ok, why = False, (f"a sub-message must always be encoded as bytes(sub) on wire type 2 (its unknown fields and presence live there; "
                                  f"truthiness of a message ignores unknown fields): enc={kinds} wire={w}")
            else:
                # every path that yields a plain sub-message (not a wrapper's value, not a datetime / timedelta) has parsed the
                # payload into it: the value returned is the result of X.parse(payload), or an object on which parse(payload) was
                # called on that path
                post_fn = mod.func("Message._postprocess_single")
                pp_ = Interp(mod, bindings={N(m.post_params[1]): 2, A(N(m.post_params[2]), "proto_type"): "message"}, inline=_inline_pack_fmt(mod)).run(post_fn)
                ctx.count(len(pp_))
                n_plain = 0
                unparsed = None
                for p_ in pp_:
                    if p_.outcome != "return" or p_.value is None:
                        continue
                    k_, _d = classify_dec(p_.value, m.dvalue)
                    if k_ in ("submessage-attr", "submessage-conv", "plain", "none"):
                        continue
                    if k_ == "submessage":
                        n_plain += 1
                        continue
                    # a freshly constructed message object (X() without arguments) returned as the field's value
                    if not (p_.value[0] == "call" and not p_.value[2] and not p_.value[3]):
                        continue
                    n_plain += 1
                    parsed_into = any(e.kind == "call" and e.data[1][0] == "a" and e.data[1][2] in ("parse", "load") and e.data[1][1] == p_.value and e.data[2] and e.data[2][0] == m.dvalue
                                      for e in p_.events)
                    if not parsed_into:
                        unparsed = unparsed or (p_, show(p_.value))
                if unparsed:
                    ok, why = False, (f"a decoder path yields {unparsed[1]} without parsing the payload into it (under {val_text(unparsed[0].valuation)}): what the payload carries - "
                                      "for a class without fields of its own, the unknown fields of a newer schema - is dropped")
                elif not n_plain:
                    ok, why = False, f"no decoder path parses the sub-message: {dkinds}"
        if ok:
            ctx.proved(rule, f"dispatch[{t}]", loc_e, detail)
        else:
            ctx.refuted(rule, f"dispatch[{t}]", why, loc_d, f"{why} ({detail})", f"round-trip a message with a {t} field")
    # zig-zag sets: the types sharing sint32's decoder branch are exactly {sint32, sint64}
    if "sint32" in zig_dec and "sint64" in zig_dec:
        same = {t for t in zig_dec if zig_dec[t] == zig_dec["sint32"]}
        if zig_dec["sint32"] == zig_dec["sint64"]:
            extra = same - SPEC_ZIGZAG
            if extra:
                ctx.refuted(rule, "zigzag-decoder-set", f"extra={sorted(extra)}", loc_d, f"{sorted(extra)} share the zig-zag decoder branch")
            else:
                ctx.proved(rule, "zigzag-decoder-set", loc_d, show(zig_dec["sint32"]))
        else:
            ctx.inconclusive(rule, "zigzag-decoder-set", f"sint32 and sint64 are decoded by different arithmetic: {show(zig_dec['sint32'])} vs {show(zig_dec['sint64'])}", loc_d)


def rule_T2(ctx, rule: str = "T2") -> None:
    """decoder range covers the type's value range (sign capability)"""
    m = model(ctx)
    mod = m.mod
    loc = mod.loc(mod.func("Message._postprocess_single"))
    # load_varint returns a value in [0, 2**(7*10)) at most; only non-negativity matters here
    lo, hi = 0, 2 ** 64 - 1

    def env(s: Sym):
        if s == m.dvalue:
            return (lo, hi)
        return None

    for t in sorted(SPEC_SIGNED_VARINT):
        decs = [d for d in m.dec[(t, 0)] if d[1] != "raise"]
        if not decs:
            ctx.inconclusive(rule, f"range[{t}]", "no decoder path", loc)
            continue
        worst_lo = None
        for val, k, d, ret in decs:
            iv = interval(ret, env) if ret is not None else (-INF, INF)
            worst_lo = iv[0] if worst_lo is None else min(worst_lo, iv[0])
        if worst_lo is not None and worst_lo >= 0:
            ctx.refuted(rule, f"range[{t}]", "result>=0", loc,
                        f"the varint decoder branch for {t} is {show(decs[0][3])}: on inputs in [0, 2**64) its result is provably >= 0, "
                        f"but {t} admits negative numbers (encoded as 64-bit two's complement)",
                        f"parse(bytes(M(x=-1))) for a {t} field")
        else:
            ctx.proved(rule, f"range[{t}]", loc, f"result interval reaches {worst_lo}")
    for t in ("uint32", "uint64", "bool"):
        decs = [d for d in m.dec[(t, 0)] if d[1] != "raise"]
        for val, k, d, ret in decs:
            iv = interval(ret, env) if ret is not None else (-INF, INF)
            if iv[1] < 0:
                ctx.refuted(rule, f"range[{t}]", "result<0", loc, f"decoder for unsigned {t} only yields negatives: {show(ret)}")
                break
        else:
            ctx.proved(rule, f"range[{t}]", loc)


def _refinements(valuation: Dict[Sym, bool]) -> Dict[Sym, Tuple[float, float]]:
    """interval constraints X in [lo, hi] implied by decided comparison atoms `X < c` / `c < X`"""
    out: Dict[Sym, Tuple[float, float]] = {}
    for k, v in valuation.items():
        if k[0] == "op" and k[1] == "<" and len(k) == 4:
            a, b = k[2], k[3]
            if b[0] == "c" and isinstance(b[1], int) and a[0] != "c":
                out[a] = (-INF, b[1] - 1) if v else (b[1], INF)
            elif a[0] == "c" and isinstance(a[1], int) and b[0] != "c":
                out[b] = (a[1] + 1, INF) if v else (-INF, a[1])
        if k[0] == "op" and k[1] == "==" and len(k) == 4 and k[3][0] == "c" and isinstance(k[3][1], int) and v:
            out[k[2]] = (k[3][1], k[3][1])
        # truthiness of `X >> j` (X non-negative): set <=> X >= 2**j
        if k[0] == "op" and k[1] == ">>" and len(k) == 4 and k[3][0] == "c" and isinstance(k[3][1], int) and k[3][1] >= 0 and k[2][0] != "c":
            out[k[2]] = (1 << k[3][1], INF) if v else (0, (1 << k[3][1]) - 1)
        # truthiness of `X & 2**j` for X already masked to j+1 bits (X & (2**(j+1) - 1)): set <=> X >= 2**j
        if k[0] == "op" and k[1] == "&" and len(k) == 4:
            for x, c in ((k[2], k[3]), (k[3], k[2])):
                if c[0] == "c" and isinstance(c[1], int) and c[1] > 0 and c[1] & (c[1] - 1) == 0 and x[0] == "op" and x[1] == "&" and C(2 * c[1] - 1) in x[2:]:
                    out[x] = (c[1], 2 * c[1] - 1) if v else (0, c[1] - 1)
    return out


def rule_T2b(ctx, rule: str = "T2") -> None:
    """two's-complement varint decoders map the valid wire ranges onto the type's value ranges"""
    m = model(ctx)
    mod = m.mod
    loc = mod.loc(mod.func("Message._postprocess_single"))
    for t, bits in (("int32", 32), ("enum", 32), ("int64", 64)):
        half = 1 << (bits - 1)
        cases = [("non-negative values", (0, half - 1), (0, half - 1)), ("negative values", ((1 << 64) - half, (1 << 64) - 1), (-half, -1))]
        bad = None
        unknown = None
        for cname, wire_rng, want in cases:
            for val, kind, d, ret in m.dec[(t, 0)]:
                if kind == "raise" or ret is None:
                    continue
                ref = _refinements(val)

                def env(s: Sym):
                    base = wire_rng if s == m.dvalue else None
                    if s in ref:
                        b0 = base if base is not None else interval(s, lambda x: wire_rng if x == m.dvalue else None) if s != m.dvalue else wire_rng
                        lo, hi = max(b0[0], ref[s][0]), min(b0[1], ref[s][1])
                        return (lo, hi)
                    return base

                # infeasible path for this wire range (refinement empties an interval)?
                feasible = True
                for s_ in ref:
                    iv = env(s_)
                    if iv is not None and iv[0] > iv[1]:
                        feasible = False
                if not feasible:
                    continue
                iv = interval(ret, env)
                if iv[0] in (INF, -INF) or iv[1] in (INF, -INF):
                    unknown = f"{show(ret)} on {cname}"
                    continue
                if iv[0] < want[0] or iv[1] > want[1]:
                    bad = (cname, ret, iv, want, val)
        name = f"range-exact[{t}]"
        if bad:
            cname, ret, iv, want, val = bad
            ctx.refuted(rule, name, f"{cname}:[{iv[0]:.0f},{iv[1]:.0f}]", loc,
                        f"for {cname} of {t} (wire values in the valid two's-complement range) the decoder {show(ret)} under {val_text(val)} yields values in "
                        f"[{iv[0]:.0f}, {iv[1]:.0f}], outside [{want[0]}, {want[1]}]: a boundary value is decoded to a different number",
                        f"round-trip {t} = {want[1] if cname.startswith('non') else want[0]}")
        elif unknown:
            ctx.inconclusive(rule, name, f"decoder range not computable: {unknown}", loc)
        else:
            ctx.proved(rule, name, loc)


def rule_W1(ctx) -> None:
    """wire / tag / struct tables equal the reference implementation's"""
    m = model(ctx)
    mod = m.mod
    ref = Reference()
    table, wiretypes, tag_bits, origin = ref.wire_tables()
    ctx.oracle(origin)
    loc = mod.loc(mod.func("_serialize_single"))
    for t in TYPE_NAMES:
        w = m.wire_of(t)
        exp = table.get(t)
        if w == exp and len(m.wire[t]) == 1 or (t in ("string", "bytes", "message", "map") and w == exp and m.wire[t] <= {w, "no-key"}):
            ctx.proved("W1", f"wire[{t}]", loc, f"{w}")
        else:
            ctx.refuted("W1", f"wire[{t}]", f"got={sorted(map(str, m.wire[t]))} want={exp}", loc,
                        f"{t} is written with wire type {sorted(map(str, m.wire[t]))}, the reference uses {exp}", f"bytes(M(x=...)) for a {t} field parsed by google.protobuf")
    names = {"WIRE_VARINT": "VARINT", "WIRE_FIXED_64": "FIXED64", "WIRE_LEN_DELIM": "LENGTH_DELIMITED", "WIRE_FIXED_32": "FIXED32"}
    for k, r in names.items():
        if k not in mod.consts:
            raise AnalysisError(f"constant {k} vanished")
        if mod.consts[k] == wiretypes[r]:
            ctx.proved("W1", f"const[{k}]", M_INIT)
        else:
            ctx.refuted("W1", f"const[{k}]", f"{mod.consts[k]}!={wiretypes[r]}", M_INIT, f"{k} = {mod.consts[k]}, reference WIRETYPE_{r} = {wiretypes[r]}")
    # tag split in the readers: what is yielded as number / wire_type is tag >> TAG_TYPE_BITS and tag & ((1 << bits) - 1),
    # however the split is spelled (shift and mask, divmod by 2**bits, a helper): judged on the E2 terms of the yielded field
    for q in ("load_fields", "parse_fields"):
        fn = mod.func(q)
        paths = Interp(mod).run(fn)
        ctx.count(len(paths))
        seen = set()
        for p in paths:
            for e in p.events:
                if e.kind == "yield" and e.data[0] == "call":
                    kw = dict(e.data[3])
                    num, wt = kw.get("number"), kw.get("wire_type")
                    if num is None and len(e.data[2]) >= 2:
                        num, wt = e.data[2][0], e.data[2][1]
                    if num is not None and wt is not None:
                        seen.add((num, wt))
        ok = bool(seen)
        detail = ""
        for num, wt in seen:
            good = num[0] == "op" and num[1] == ">>" and num[3] == C(tag_bits) and wt[0] == "op" and wt[1] == "&" and C((1 << tag_bits) - 1) in wt[2:] and num[2] in wt[2:]
            # under a decided wire type the wire term may have been folded to that constant
            if not good and num[0] == "op" and num[1] == ">>" and num[3] == C(tag_bits) and wt[0] == "c":
                good = True
            if not good:
                ok = False
                detail = f"number={show(num)} wire_type={show(wt)}"
        if not seen:
            ctx.inconclusive("W1", f"tag-split[{q}]", "yielded field not recognised", mod.loc(fn))
        elif ok:
            ctx.proved("W1", f"tag-split[{q}]", mod.loc(fn))
        else:
            ctx.refuted("W1", f"tag-split[{q}]", detail, mod.loc(fn), f"the reader yields {detail}; reference: number = tag >> {tag_bits}, wire type = tag & {(1 << tag_bits) - 1}")
    rule_W1f(ctx, "W1")


def rule_T8(ctx, rule: str = "T8") -> None:
    """the encoding is computed from the message as it is now: every returning path of __bytes__ / SerializeToString runs the
    writer (`self.dump(..)`, or bytes(self)) in this call.  A path that hands back bytes kept from an earlier call is stale after
    any change that does not go through __setattr__ of this very object - an append to a repeated field, a store into a map,
    an assignment inside a child"""
    from ..sym import walk as _walk
    m = model(ctx)
    mod = m.mod
    n = 0
    from .c09 import shared_chunk_generator
    gen = shared_chunk_generator(mod)
    writers = {"self.dump", "self.__bytes__", "self.SerializeToString"} | ({f"self.{gen}"} if gen else set())
    for q in ("Message.__bytes__", "Message.SerializeToString"):
        if not mod.has(q):
            continue
        fn = mod.func(q)
        ctx.analysed(q)
        paths = Interp(mod, fork_ifexp=True).run(fn)
        ctx.count(len(paths))
        bad = None
        rets = 0
        for p in paths:
            if p.outcome != "return":
                continue
            rets += 1
            wrote = any(e.kind == "call" and (dotted(e.data[1]) in writers or (dotted(e.data[1]) == "bytes" and e.data[2] == (N("self"),))) for e in p.events) or (
                p.value is not None and any(t[0] == "call" and (dotted(t[1]) in writers or (dotted(t[1]) == "bytes" and t[2] == (N("self"),))) for t in _walk(p.value)))
            if not wrote:
                bad = bad or p
        name = f"{q.split('.')[-1]}:encodes-current-state"
        n += 1
        if bad:
            ctx.refuted(rule, name, show(bad.value)[:60] if bad.value else "no-writer", mod.loc(fn),
                        f"on the path {bad.val_text()[:200]} {q.split('.')[-1]} returns {show(bad.value)[:80] if bad.value else None} without running the writer: bytes kept from an earlier call do not "
                        "reflect changes made in place (list.append, map store, assignment inside a child) since then", "m = M(xs=[1]); bytes(m); m.xs.append(2); M().parse(bytes(m)) == m")
        elif not rets:
            ctx.inconclusive(rule, name, "no returning path", mod.loc(fn))
        else:
            ctx.proved(rule, name, mod.loc(fn), f"{rets} returning paths, each through the writer")
    ctx.floor(rule, "encoder entry points", n, 1)


def rule_W1f(ctx, rule: str = "N4") -> None:
    """the struct format of every fixed-width type is the reference encoder's: width, byte order and signedness (an unsigned
    type packed with a signed format raises for the upper half of its range and decodes it as negative numbers)"""
    m = model(ctx)
    mod = m.mod
    ref = Reference()
    fmts, origin2 = ref.struct_formats()
    ctx.oracle(origin2)
    tbl = pack_fmt_table(mod)
    for t, f in fmts.items():
        if tbl.get(t) == f:
            ctx.proved(rule, f"struct-format[{t}]", _fmt_loc(mod))
        else:
            ctx.refuted(rule, f"struct-format[{t}]", f"{tbl.get(t)}!={f}", _fmt_loc(mod), f"_pack_fmt({t}) = {tbl.get(t)!r}, reference encoder uses {f!r}",
                        f"bytes(M(x=1)) for a {t} field")


def _fmt_loc(mod) -> str:
    return mod.loc(mod.func("_pack_fmt")) if mod.has("_pack_fmt") else mod.rel


def pack_fmt_table(mod) -> Dict[Any, Any]:
    """proto type -> struct format, whether _pack_fmt holds the table itself or indexes a module-level constant, or the
    formats live in a module-level table of compiled struct.Struct objects"""
    if not mod.has("_pack_fmt"):
        for name, v in mod.consts.items():
            if isinstance(v, dict) and v and all(type(x).__name__ == "SymCall" and x.func == "struct.Struct" for x in v.values()):
                return {k: x.args[0] for k, x in v.items()}
        raise AnalysisError("neither _pack_fmt nor a table of struct.Struct codecs found")
    fn = mod.func("_pack_fmt")
    rets = [n for n in ast.walk(fn) if isinstance(n, ast.Return) and n.value is not None]
    if len(rets) == 1 and isinstance(rets[0].value, ast.Subscript) and isinstance(rets[0].value.value, ast.Name) and rets[0].value.value.id in mod.consts \
            and isinstance(mod.consts[rets[0].value.value.id], dict):
        return dict(mod.consts[rets[0].value.value.id])
    if len(rets) == 1 and isinstance(rets[0].value, ast.Call) and isinstance(rets[0].value.func, ast.Attribute) and rets[0].value.func.attr == "get" \
            and isinstance(rets[0].value.func.value, ast.Name) and isinstance(mod.consts.get(rets[0].value.func.value.id), dict):
        return dict(mod.consts[rets[0].value.func.value.id])
    try:
        return mod.table_function("_pack_fmt")
    except AnalysisError:
        # any other shape: the function evaluated once per proto type (a type it raises for is not in the table)
        params = [a.arg for a in fn.args.args]
        out: Dict[Any, Any] = {}
        for t in TYPE_NAMES:
            paths = Interp(mod, bindings={N(params[0]): t}).run(fn)
            vals = {p.value for p in paths if p.outcome == "return" and p.value is not None}
            if len(paths) == 1 and len(vals) == 1 and next(iter(vals))[0] == "c" and isinstance(next(iter(vals))[1], str):
                out[t] = next(iter(vals))[1]
            elif all(p.outcome == "raise" for p in paths) and paths:
                continue
            elif vals and all(any(x[0] == "sub" and x[1][0] == "c" and isinstance(x[1][1], dict) and x[2][0] == "c" and x[2][1] not in x[1][1] for x in walk(v)) for v in vals):
                continue            # a lookup of a key the constant table does not hold: KeyError
            else:
                raise AnalysisError(f"_pack_fmt({t!r}) does not evaluate to a constant format: {[show(v) for v in vals][:2]}")
        if not out:
            raise AnalysisError("_pack_fmt evaluates to no format for any proto type")
        return out


def rule_N4(ctx) -> None:
    m = model(ctx)
    mod = m.mod
    tbl = pack_fmt_table(mod)
    fixed = set(mod.consts.get("FIXED_TYPES", ()))
    loc = _fmt_loc(mod)
    if set(tbl) == fixed:
        ctx.proved("N4", "_pack_fmt:domain=FIXED_TYPES", loc)
    else:
        ctx.refuted("N4", "_pack_fmt:domain=FIXED_TYPES", f"diff={sorted(set(tbl) ^ fixed)}", loc, f"_pack_fmt keys {sorted(tbl)} vs FIXED_TYPES {sorted(fixed)}")
    w32 = set(mod.consts.get("WIRE_FIXED_32_TYPES", ()))
    w64 = set(mod.consts.get("WIRE_FIXED_64_TYPES", ()))
    if w32 | w64 == fixed and not (w32 & w64):
        ctx.proved("N4", "FIXED_TYPES=fixed32+fixed64 classes", M_INIT)
    else:
        ctx.refuted("N4", "FIXED_TYPES=fixed32+fixed64 classes", f"diff={sorted((w32 | w64) ^ fixed)}", M_INIT, "FIXED_TYPES is not the disjoint union of the two fixed wire classes")
    for t, f in tbl.items():
        size = SPEC_STRUCT_SIZE.get(str(f)[-1:])
        want = 4 if t in w32 else 8 if t in w64 else None
        little = str(f).startswith("<")
        if size == want and little:
            ctx.proved("N4", f"format-width[{t}]", loc)
        else:
            ctx.refuted("N4", f"format-width[{t}]", f"fmt={f}", loc, f"_pack_fmt({t}) = {f!r}: width {size} / little-endian {little}, wire class needs {want} bytes little-endian")


def rule_T3(ctx) -> None:
    """packed agreement between dump, load and the spec"""
    m = model(ctx)
    mod = m.mod
    dump = mod.func("Message.dump")
    load = mod.func("Message.load")
    is_list = ("call", N("isinstance"), (VALUE, N("list")), ())
    for t in TYPE_NAMES:
        if t == "map":
            continue
        paths = interp_for(mod, bindings=type_binding(t), assume={is_list: True}).run(dump)
        ctx.count(len(paths))
        packed = set()
        for p in paths:
            ser = [e for e in p.calls("_serialize_single") if e.depth == 0]
            if not ser:
                continue
            for e in ser:
                c = e.data
                ptype = c[2][1] if len(c[2]) > 1 else None
                if ptype == C("bytes") and t != "bytes" and len(e.loops) == 1:
                    packed.add(True)
                elif len(e.loops) >= 2:
                    packed.add(False)
                else:
                    packed.add(None)
        want = t in SPEC_PACKABLE
        if packed == {want}:
            ctx.proved("T3", f"dump-packs[{t}]", mod.loc(dump), str(want))
        elif not packed:
            ctx.inconclusive("T3", f"dump-packs[{t}]", "no emitting path for a list value", mod.loc(dump))
        else:
            ctx.refuted("T3", f"dump-packs[{t}]", f"packed={sorted(map(str, packed))} want={want}", mod.loc(dump),
                        f"dump encodes a repeated {t} field packed={sorted(map(str, packed))}; proto3 says packed={want}", f"bytes(M(xs=[1, 2])) for repeated {t}")
    # decoder side: length-delimited occurrence of a packable type is decoded as packed, with the right inner width
    lparams = [a.arg for a in load.args.args]
    wt_expr = A(N("$parsed"), "wire_type")
    for t in TYPE_NAMES:
        if t in ("map",):
            continue
        paths = _load_paths(ctx, mod, t, 2, inline=_inline_pack_fmt(mod))
        inner = set()
        pv = A(N("$parsed"), "value")
        for p in paths:
            for e in p.calls("_postprocess_single"):
                if e.depth != 0:
                    continue
                a = e.data[2]
                w = a[0]
                kind = _payload_kind(a[3]) if len(a) > 3 else "?"
                # an element of a packed run: decoded from a *part* of the payload (a fixed-width slice or a varint at a position),
                # in whatever kind of loop or comprehension; the whole payload handed over at once is the non-packed case
                part = len(a) > 3 and a[3] != pv and contains(a[3], pv) and (kind == "varint" or kind.startswith("read:"))
                inner.add((w[1] if w[0] == "c" else show(w), bool(part or in_packed_loop(e.loops)), kind))
            # fixed-width elements may also be taken apart by struct.iter_unpack(<format of the type>, payload)
            for e in p.events:
                if e.kind == "call" and dotted(e.data[1]).endswith("iter_unpack") and len(e.data[2]) == 2 and e.data[2][1] == pv and e.data[2][0][0] == "c":
                    import struct as _struct
                    try:
                        width = _struct.calcsize(e.data[2][0][1])
                    except Exception:
                        continue
                    inner.add(({4: 5, 8: 1}.get(width, "?"), True, f"read:{width}"))
        want = t in SPEC_PACKABLE
        if want:
            ww = m.wire_of(t)
            exp_kind = "varint" if ww == 0 else f"read:{WIDTH.get(ww)}"
            good = {(ww, True, exp_kind)}
            if inner == good:
                ctx.proved("T3", f"load-unpacks[{t}]", mod.loc(load), f"inner wire {ww}, {exp_kind}")
            else:
                ctx.refuted("T3", f"load-unpacks[{t}]", f"got={sorted(map(str, inner))}", mod.loc(load),
                            f"a length-delimited occurrence of packable {t} is decoded as {sorted(map(str, inner))}, expected packed elements of wire type {ww} ({exp_kind})",
                            f"M().parse(<packed encoding of repeated {t}>)")
        else:
            if any(x[1] for x in inner):
                ctx.refuted("T3", f"load-unpacks[{t}]", f"got={sorted(map(str, inner))}", mod.loc(load), f"{t} is not packable but load runs the packed decoder")
            else:
                ctx.proved("T3", f"load-unpacks[{t}]", mod.loc(load), "not packed")
    # table: PACKED_TYPES = all non-length-delimited types
    pk = set(mod.consts.get("PACKED_TYPES", ()))
    if pk == SPEC_PACKABLE:
        ctx.proved("T3", "PACKED_TYPES", M_INIT)
    else:
        ctx.refuted("T3", "PACKED_TYPES", f"diff={sorted(pk ^ SPEC_PACKABLE)}", M_INIT, f"PACKED_TYPES differs from the packable scalar types by {sorted(pk ^ SPEC_PACKABLE)}")


def in_packed_loop(loops) -> bool:
    """inside the inner loop that walks the payload of one length-delimited occurrence"""
    pv = A(N("$parsed"), "value")
    return any(isinstance(l, tuple) and l and l[0] == "while" and contains(l[1], pv) for l in loops)


def load_roles(it: Sym, depth: int):
    # for parsed in load_fields(stream)
    if it[0] == "call" and dotted(it[1]) in ("load_fields", "parse_fields"):
        return [N("$parsed")]
    # fields = load_fields(stream) if <cond> else ()
    if it[0] == "ife" and any(b[0] == "call" and dotted(b[1]) in ("load_fields", "parse_fields") for b in it[2:4]):
        return [N("$parsed")]
    return None


def load_alias_fn(s: Sym):
    """parsed = next(<load_fields(...)>[, default]) in the while-loop form of the field loop"""
    if s[0] == "call" and s[1] == N("next") and s[2] and s[2][0][0] == "call" and dotted(s[2][0][1]) in ("load_fields", "parse_fields"):
        return N("$parsed")
    return None


def load_aliases() -> Dict[Sym, Sym]:
    bp = A(N("self"), "_betterproto")
    fnb = A(bp, "field_name_by_number")
    pn = A(N("$parsed"), "number")
    fname = ("call", A(fnb, "get"), (pn,), ())
    al = {
        fname: FIELD_NAME,
        ("sub", fnb, pn): FIELD_NAME,
        ("sub", A(bp, "meta_by_field_name"), FIELD_NAME): META,
        ("call", N("getattr"), (N("self"), FIELD_NAME), ()): N("$current"),
        ("call", A(N("self"), "_get_field_default"), (FIELD_NAME,), ()): N("$default"),
    }
    return al


def _load_paths(ctx, mod, t: Optional[str], w: Optional[int], **kw) -> List[Path]:
    load = mod.func("Message.load")
    b: Dict[Sym, Any] = {}
    if t is not None:
        b[A(META, "proto_type")] = t
    if w is not None:
        b[A(N("$parsed"), "wire_type")] = w
    al = load_aliases()
    # proto_meta = self._betterproto
    # small helpers called in load on (incoming wire type, declared type) only are part of the dispatch: inline them
    inline = dict(kw.pop("inline", None) or {})
    for c in ast.walk(load):
        if isinstance(c, ast.Call) and isinstance(c.func, ast.Name) and mod.has(c.func.id) and c.args and \
                any(isinstance(x, ast.FunctionDef) for x in mod.defs[c.func.id]) and \
                {"wire_type", "proto_type"} <= {ast.unparse(a).rsplit(".", 1)[-1] for a in c.args}:
            inline[c.func.id] = (mod, mod.func(c.func.id))
    kw["inline"] = inline
    assume = dict(kw.pop("assume", None) or {})
    assume.setdefault(("op", "is", N("$parsed"), C(None)), False)   # a field was read (end of input is the other branch)
    assume.setdefault(("op", "is", META, C(None)), False)           # the metadata of a known field exists
    # a scenario that says whether the field currently holds a list says the same about its declaration: a field holds a
    # list exactly when it is declared repeated (default_gen[field] is list), and load may ask either question
    cur_list_atom = ("call", N("isinstance"), (N("$current"), N("list")), ())
    if cur_list_atom in assume:
        assume.setdefault(("op", "is", ("sub", A(A(N("self"), "_betterproto"), "default_gen"), FIELD_NAME), N("list")), assume[cur_list_atom])
    kw.setdefault("fork_ifexp", True)
    kw.setdefault("replay_logs", True)
    i = Interp(mod, bindings=b, aliases=al, alias_fn=load_alias_fn, loop_roles=load_roles, assume=assume, **kw)
    paths = i.run(load)
    ctx.count(len(paths))
    return paths


def rule_T4(ctx) -> None:
    """map entries: key = field 1, value = field 2 on both sides"""
    rule_T4b(ctx)
    mod = ctx.repo.mod(M_INIT)
    dump = mod.func("Message.dump")
    is_dict = ("call", N("isinstance"), (VALUE, N("dict")), ())
    is_list = ("call", N("isinstance"), (VALUE, N("list")), ())
    paths = interp_for(mod, bindings=type_binding("map"), assume={is_dict: True, is_list: False}).run(dump)
    ctx.count(len(paths))
    seen = set()
    for p in paths:
        for e in p.calls("_serialize_single"):
            if e.depth or len(e.loops) < 2:
                continue
            a = e.data[2]
            num, ty = a[0], a[1]
            if num[0] == "c" and ty[0] == "sub" and ty[2][0] == "c":
                seen.add((num[1], ty[2][1], _entry_part(a[2])))
            elif num[0] == "c" and ty[0] == "item" and isinstance(ty[2], int):
                seen.add((num[1], ty[2], _entry_part(a[2])))        # key_type, value_type = meta.map_types
    want = {(1, 0, "key"), (2, 1, "value")}
    if seen == want:
        ctx.proved("T4", "dump:map-entry-numbering", mod.loc(dump))
    elif not seen:
        ctx.inconclusive("T4", "dump:map-entry-numbering", "map entry serialisation not recognised", mod.loc(dump))
    else:
        ctx.refuted("T4", "dump:map-entry-numbering", f"{sorted(seen)}", mod.loc(dump),
                    f"map entries are written as (number, map_types index, part) = {sorted(seen)}; expected {sorted(want)}", "bytes(M(m={1: 2})) parsed by google.protobuf")
    # Entry dataclass: built somewhere in the class metadata (ProtoClassMetadata._get_cls_by_field, a helper of it, or the constructor)
    fn = mod.func("ProtoClassMetadata._get_cls_by_field") if mod.has("ProtoClassMetadata._get_cls_by_field") else mod.func("ProtoClassMetadata.__init__")
    found = set()
    scope = [f_ for ms_ in mod.methods("ProtoClassMetadata").values() for f_ in ms_]
    scope = [mod.func(f"ProtoClassMetadata.{f_.name}") for f_ in scope]
    for f_ in scope:
        ctx.analysed(f"ProtoClassMetadata.{f_.name}")
    import copy as _copy

    def _unroll(it):
        """the elements (as syntax) of an iterable written out from constants: a display, enumerate(..), zip(.., X.map_types)"""
        if isinstance(it, (ast.Tuple, ast.List)):
            return list(it.elts)
        if isinstance(it, ast.Call) and isinstance(it.func, ast.Name) and not it.keywords:
            if it.func.id == "enumerate" and len(it.args) == 1:
                xs = _unroll(it.args[0])
                return None if xs is None else [ast.Tuple([ast.Constant(k_), x_], ast.Load()) for k_, x_ in enumerate(xs)]
            if it.func.id == "zip" and len(it.args) == 2:
                a_, b_ = _unroll(it.args[0]), _unroll(it.args[1])
                if a_ is None and b_ is None:
                    return None
                n_ = len(a_ if a_ is not None else b_)
                if a_ is None:
                    a_ = [ast.Subscript(it.args[0], ast.Constant(k_), ast.Load()) for k_ in range(n_)] if isinstance(it.args[0], ast.Attribute) and it.args[0].attr == "map_types" else None
                if b_ is None:
                    b_ = [ast.Subscript(it.args[1], ast.Constant(k_), ast.Load()) for k_ in range(n_)] if isinstance(it.args[1], ast.Attribute) and it.args[1].attr == "map_types" else None
                if a_ is None or b_ is None or len(a_) != len(b_):
                    return None
                return [ast.Tuple([x_, y_], ast.Load()) for x_, y_ in zip(a_, b_)]
        return None

    def _bind(t_, v_, env):
        if isinstance(t_, ast.Name):
            env[t_.id] = v_
            return True
        if isinstance(t_, (ast.Tuple, ast.List)) and isinstance(v_, (ast.Tuple, ast.List)) and len(t_.elts) == len(v_.elts):
            return all(_bind(a_, b_, env) for a_, b_ in zip(t_.elts, v_.elts))
        return False

    class _Sub(ast.NodeTransformer):
        def __init__(self, env):
            self.env = env

        def visit_Name(self, n_):
            return _copy.deepcopy(self.env[n_.id]) if n_.id in self.env and isinstance(n_.ctx, ast.Load) else n_

        def visit_BinOp(self, n_):
            self.generic_visit(n_)
            if isinstance(n_.left, ast.Constant) and isinstance(n_.right, ast.Constant) and isinstance(n_.left.value, int) and isinstance(n_.right.value, int):
                if isinstance(n_.op, ast.Add):
                    return ast.Constant(n_.left.value + n_.right.value)
                if isinstance(n_.op, ast.Sub):
                    return ast.Constant(n_.left.value - n_.right.value)
            return n_

    for f_ in scope:
        # locals bound by unpacking the pair of map types: `key_type, value_type = meta.map_types`
        unpacked = {}
        for a_ in ast.walk(f_):
            if isinstance(a_, ast.Assign) and len(a_.targets) == 1 and isinstance(a_.targets[0], ast.Tuple) and isinstance(a_.value, ast.Attribute) and a_.value.attr == "map_types":
                for k_, e_ in enumerate(a_.targets[0].elts):
                    if isinstance(e_, ast.Name):
                        unpacked[e_.id] = k_
        triples = [n for n in ast.walk(f_) if isinstance(n, ast.Tuple) and len(n.elts) == 3 and not any(
            isinstance(c_, (ast.ListComp, ast.GeneratorExp)) and c_.elt is n for c_ in ast.walk(f_))]
        for c_ in ast.walk(f_):
            if isinstance(c_, (ast.ListComp, ast.GeneratorExp)) and isinstance(c_.elt, ast.Tuple) and len(c_.elt.elts) == 3 and len(c_.generators) == 1 and not c_.generators[0].ifs:
                xs = _unroll(c_.generators[0].iter)
                if xs is None:
                    triples.append(c_.elt)
                    continue
                for x_ in xs:
                    env_ = {}
                    if _bind(c_.generators[0].target, x_, env_):
                        triples.append(_Sub(env_).visit(_copy.deepcopy(c_.elt)))
        for n in triples:
            if isinstance(n, ast.Tuple) and len(n.elts) == 3 and isinstance(n.elts[0], ast.Constant) and isinstance(n.elts[2], ast.Call) \
                    and ast.unparse(n.elts[2].func) == "dataclass_field" and len(n.elts[2].args) >= 2:
                c = n.elts[2]
                num = c.args[0].value if isinstance(c.args[0], ast.Constant) else None
                idx = None
                if isinstance(c.args[1], ast.Subscript) and isinstance(c.args[1].slice, ast.Constant):
                    idx = c.args[1].slice.value
                elif isinstance(c.args[1], ast.Name) and c.args[1].id in unpacked:
                    idx = unpacked[c.args[1].id]
                found.add((n.elts[0].value, num, idx))
    want2 = {("key", 1, 0), ("value", 2, 1)}
    if found == want2:
        ctx.proved("T4", "Entry:field-numbering", mod.loc(fn))
    elif not found:
        ctx.inconclusive("T4", "Entry:field-numbering", "synthetic Entry dataclass not recognised", mod.loc(fn))
    else:
        ctx.refuted("T4", "Entry:field-numbering", f"{sorted(map(str, found))}", mod.loc(fn), f"Entry declares {sorted(map(str, found))}, expected {sorted(want2)}",
                    "M().parse(bytes(M(m={1: 2})))")
    # load: current[value.key] = value.value
    paths = _load_paths(ctx, mod, "map", 2)
    stores = set()
    for p in paths:
        for e in p.events:
            if e.kind == "store" and e.data[0][0] == "sub" and e.data[0][1] == N("$current"):
                k, v = e.data[0][2], e.data[1]
                stores.add((k[2] if k[0] == "a" else show(k), v[2] if v[0] == "a" else show(v), k[1] == v[1] if k[0] == v[0] == "a" else False))
    if stores == {("key", "value", True)}:
        ctx.proved("T4", "load:map-entry-store", mod.loc(mod.func("Message.load")))
    elif not stores:
        ctx.inconclusive("T4", "load:map-entry-store", "map entry store not recognised", mod.loc(mod.func("Message.load")))
    else:
        ctx.refuted("T4", "load:map-entry-store", f"{sorted(map(str, stores))}", mod.loc(mod.func("Message.load")), f"map entries stored as {sorted(map(str, stores))}")


def rule_T4b(ctx, rule: str = "T4") -> None:
    """a map entry is always written: its key and value may both encode to nothing (e.g. {"": ""}), the entry is still present"""
    mod = ctx.repo.mod(M_INIT)
    is_dict = ("call", N("isinstance"), (VALUE, N("dict")), ())
    is_list = ("call", N("isinstance"), (VALUE, N("list")), ())
    # (the sizer's agreement with dump on this point is decided by C09/L1's sibling comparison)
    for q, callee in (("Message.dump", "_serialize_single"),):
        fn = mod.func(q)
        rets = [n for n in ast.walk(fn) if isinstance(n, ast.Return) and n.value is not None]
        if q.endswith("__len__") and len(rets) == 1 and ast.unparse(rets[0].value) in ("len(bytes(self))",):
            ctx.proved(rule, f"{q.split('.')[-1]}:map-entry-always-emitted", mod.loc(fn), "delegates to dump")
            continue
        paths = interp_for(mod, bindings=type_binding("map"), assume={is_dict: True, is_list: False}).run(fn)
        ctx.count(len(paths))
        seen = []
        for p in paths:
            for e in p.calls(callee):
                if e.depth or len(e.loops) < 2:
                    continue
                a = e.data[2]
                if len(a) >= 2 and a[1] == C("map"):
                    seen.append(dict(e.data[3]).get("serialize_empty", C(False)))
        name = f"{q.split('.')[-1]}:map-entry-always-emitted"
        if not seen:
            ctx.inconclusive(rule, name, "map entry emission not recognised", mod.loc(fn))
        elif all(x == C(True) for x in seen):
            ctx.proved(rule, name, mod.loc(fn))
        else:
            ctx.refuted(rule, name, "entry-skipped-when-empty", mod.loc(fn),
                        f"{q.split('.')[-1]} writes a map entry through {callee}(number, 'map', key + value) without serialize_empty=True: when key and value both encode to nothing "
                        "(length-delimited key and value at their defaults, e.g. {'': ''} or {'': Msg()}) the entry is dropped and the map loses an element on the wire",
                        "bytes(M(ss={'': ''})) == b''")


def _entry_part(s: Sym) -> str:
    # k / v of `for k, v in value.items()`
    if s[0] == "item" and s[1][0] == "elem":
        return "key" if s[2] == 0 else "value"
    return show(s)


def rule_T5(ctx) -> None:
    """presence bits are set on decode"""
    rule_T5b(ctx)
    mod = ctx.repo.mod(M_INIT)
    load = mod.func("Message.load")
    paths = _load_paths(ctx, mod, None, None)
    bad = 0
    for p in paths:
        idx_store = None
        idx_loop = None
        for i, e in enumerate(p.events):
            if e.kind == "store" and e.data[0] == A(N("self"), "_serialized_on_wire") and e.data[1] == C(True) and idx_store is None:
                idx_store = i
            if e.kind == "loop" and idx_loop is None:
                idx_loop = i
        if p.outcome == "raise" and idx_loop is None:
            continue
        if idx_store is None or (idx_loop is not None and idx_store > idx_loop):
            bad += 1
    if bad:
        ctx.refuted("T5", "load:sets-serialized_on_wire", "missing-or-late", mod.loc(load), f"{bad} paths of load do not set _serialized_on_wire = True before reading fields",
                    "M().parse(b'') then serialized_on_wire(m)")
    else:
        ctx.proved("T5", "load:sets-serialized_on_wire", mod.loc(load), f"{len(paths)} paths")
    m = model(ctx)
    decs = m.dec[("message", 2)]
    plain = [d for d in decs if d[1] == "submessage"]
    post = mod.func("Message._postprocess_single")
    # re-run to look at events of the plain sub-message path
    pp = Interp(mod, bindings={N(m.post_params[1]): 2, A(N(m.post_params[2]), "proto_type"): "message"}).run(post)
    ok = False
    seen_plain = False
    for p in pp:
        k, d = classify_dec(p.value, m.dvalue)
        if k != "submessage":
            # the parse may be a statement of its own: X = cls(); X.parse(payload); ... return X
            if not (p.value is not None and any(e.kind == "call" and e.data[1][0] == "a" and e.data[1][2] in ("parse", "load") and e.data[1][1] == p.value
                                                and e.data[2] and e.data[2][0] == m.dvalue for e in p.events)):
                continue
        seen_plain = True
        ok = any(e.kind == "store" and e.data[0][0] == "a" and e.data[0][2] == "_serialized_on_wire" and e.data[0][1] == p.value and e.data[1] == C(True) for e in p.events)
        if not ok:
            break
    if not seen_plain:
        ctx.inconclusive("T5", "nested-decode:sets-serialized_on_wire", "plain sub-message decode path not recognised", mod.loc(post))
    elif ok:
        ctx.proved("T5", "nested-decode:sets-serialized_on_wire", mod.loc(post))
    else:
        ctx.refuted("T5", "nested-decode:sets-serialized_on_wire", "missing", mod.loc(post),
                    "a parsed sub-message is not marked _serialized_on_wire, so a received-but-empty sub-message is dropped when re-encoded",
                    "Outer().parse(b'\\x0a\\x00') then bytes(...)")


def is_repeated_atom(k: Sym) -> bool:
    """`<class metadata>.default_gen[$field_name] is list` - the code's own test for 'this field is repeated' """
    return k[0] == "op" and k[1] == "is" and len(k) == 4 and k[3] == N("list") and k[2][0] == "sub" and k[2][2] == FIELD_NAME \
        and "default_gen" in show(k[2][1])


def rule_W2(ctx) -> None:
    """repeated-occurrence merge: (list, list) must extend, not replace"""
    mod = ctx.repo.mod(M_INIT)
    load = mod.func("Message.load")
    cur_list = ("call", N("isinstance"), (N("$current"), N("list")), ())
    results: Dict[str, set] = {}
    for t in ("int32", "string", "message"):
        for w in ((2, 0) if t == "int32" else (2,)):
            paths = _load_paths(ctx, mod, t, w, assume={cur_list: True})
            for p in paths:
                if p.outcome == "raise" or not p.valuation.get(FIELD_NAME, False):
                    continue
                # a value produced by _postprocess_single is a scalar; only the packed branch builds a list
                if any(v for k, v in p.valuation.items() if k[0] == "call" and k[1] == N("isinstance") and len(k[2]) == 2
                       and k[2][1] == N("list") and k[2][0][0] == "call" and dotted(k[2][0][1]).endswith("_postprocess_single")):
                    continue
                if any(k[0] == "raises" and v for k, v in p.valuation.items()):
                    continue
                # the current value is a list exactly when the field is repeated: a path that decided "not repeated" is infeasible here
                if any(not v for k, v in p.valuation.items() if is_repeated_atom(k)):
                    continue
                packed_path = any(in_packed_loop(e.loops) for e in p.events)
                vlist = packed_path
                acts = set()
                for e in p.events:
                    if e.kind == "call" and e.depth == 0:
                        nm = dotted(e.data[1])
                        if nm == "$current.append":
                            acts.add("append")
                        elif nm == "$current.extend":
                            acts.add("extend")
                        elif nm == "setattr" and len(e.data[2]) == 3 and e.data[2][1] == FIELD_NAME:
                            v = e.data[2][2]
                            if v == N("$default") or v == N("$current"):
                                continue
                            acts.add("replace" if not contains(v, N("$current")) else "concat")
                    if e.kind == "aug" and e.data[0] == N("$current") or (e.kind == "aug" and e.data[3] == N("$current")):
                        acts.add("extend")
                key = f"{t}:list+{'list' if vlist else 'scalar'}"
                results.setdefault(key, set()).update(acts or {"nothing"})
    for key, acts in sorted(results.items()):
        want = {"extend", "concat"} if key.endswith("+list") else {"append"}
        if acts & want and not (acts - want):
            ctx.proved("W2", f"merge[{key}]", mod.loc(load), ",".join(sorted(acts)))
        elif "replace" in acts or "nothing" in acts:
            ctx.refuted("W2", f"merge[{key}]", ",".join(sorted(acts)), mod.loc(load),
                        f"a further occurrence of a repeated field ({key}) is stored by {sorted(acts)} instead of {sorted(want)}: elements already decoded are lost",
                        "M().parse(b'\\x0a\\x02\\x01\\x02\\x0a\\x01\\x03').xs  # two packed chunks")
        else:
            ctx.inconclusive("W2", f"merge[{key}]", f"store actions {sorted(acts)} not classified", mod.loc(load))
    ctx.floor("W2", "merge shapes", len(results), 3)
    # singular scalar: last wins through tracked setattr
    cur_not_list = {cur_list: False}
    paths = _load_paths(ctx, mod, "int32", 0, assume=cur_not_list)
    ok = all(any(e.kind == "call" and dotted(e.data[1]) == "setattr" and len(e.data[2]) == 3 and e.data[2][1] == FIELD_NAME and e.data[2][0] == N("self")
                 for e in p.events) for p in paths if p.outcome != "raise" and FIELD_NAME in [k for k in p.valuation] and p.valuation.get(FIELD_NAME))
    if ok:
        ctx.proved("W2", "merge[scalar:last-wins]", mod.loc(load))
    else:
        ctx.refuted("W2", "merge[scalar:last-wins]", "no-tracked-store", mod.loc(load), "a singular occurrence is not stored through setattr(self, field, value)")


def rule_T5b(ctx, rule: str = "T5") -> None:
    """every decoded occurrence of a known singular field is stored through the tracked setattr, unconditionally:
    presence (and oneof selection) is recorded by the store, not by the value"""
    mod = ctx.repo.mod(M_INIT)
    load = mod.func("Message.load")
    cur_list = ("call", N("isinstance"), (N("$current"), N("list")), ())
    bad = None
    n = 0
    for t, w in (("int32", 0), ("string", 2), ("message", 2), ("enum", 0)):
        def_list = ("call", N("isinstance"), (N("$default"), N("list")), ())
        paths = _load_paths(ctx, mod, t, w, assume={cur_list: False, def_list: False})
        for p in paths:
            if p.outcome == "raise" or not p.valuation.get(FIELD_NAME, False):
                continue
            # a singular occurrence decodes to a scalar (only the packed branch builds a list)
            if any(v for k, v in p.valuation.items() if k[0] == "call" and k[1] == N("isinstance") and len(k[2]) == 2 and k[2][1] == N("list")
                   and k[2][0][0] == "call" and dotted(k[2][0][1]).endswith("_postprocess_single")):
                continue
            n += 1
            stored = any(e.kind == "call" and e.depth == 0 and dotted(e.data[1]) == "setattr" and len(e.data[2]) == 3 and e.data[2][0] == N("self")
                         and e.data[2][1] == FIELD_NAME and e.data[2][2] not in (N("$default"), N("$current")) for e in p.events)
            if not stored:
                bad = (t, p)
    if bad:
        t, p = bad
        ctx.refuted(rule, "load:singular-occurrence-always-stored", f"skipped:{t}", mod.loc(load),
                    f"a decoded occurrence of a singular {t} field is not stored on the path {val_text(p.valuation)}: whether a field was received must not depend on the value "
                    "(an empty sub-message or a default-valued oneof member compares equal to the lazily created default and would be dropped)",
                    "Outer().parse(b'\\x0a\\x00'); serialized_on_wire(outer.inner)")
    elif n == 0:
        ctx.inconclusive(rule, "load:singular-occurrence-always-stored", "no known-field path found", mod.loc(load))
    else:
        ctx.proved(rule, "load:singular-occurrence-always-stored", mod.loc(load), f"{n} paths")


def rule_T7(ctx, rule: str = "T7") -> None:
    """every field key ((number << 3) | wire type) leaves _serialize_single through the varint encoder; a fixed-width
    shortcut (to_bytes / bytes([..]) / pack) is only right where the path has established that the key fits 7 bits"""
    m = model(ctx)
    mod = m.mod
    ser = mod.func("_serialize_single")
    sparams = [a.arg for a in ser.args.args]
    fnum = N(sparams[0])
    n_keys = 0
    bad = None
    for t in TYPE_NAMES:
        paths = Interp(mod, bindings={N(sparams[1]): t}, fork_ifexp=True).run(ser)
        ctx.count(len(paths))
        for p in paths:
            if p.outcome == "raise":
                continue
            terms = [e.data for e in p.events if e.kind in ("call", "return") and isinstance(e.data, tuple)]
            terms += [e.data[2] for e in p.events if e.kind == "aug"] + [e.data[1] for e in p.events if e.kind == "store"]
            for top in terms:
                for c in walk(top):
                    if c[0] != "call":
                        continue
                    # a call that takes the key directly (its argument / receiver is the key expression itself)
                    direct = [a for a in c[2] if _key_wire(a, fnum) is not None]
                    if c[1][0] == "a" and _key_wire(c[1][1], fnum) is not None:
                        direct.append(c[1][1])
                    if not direct:
                        continue
                    n_keys += 1
                    callee = dotted(c[1]).split(".")[-1] if c[1][0] != "a" or _key_wire(c[1][1], fnum) is None else c[1][2]
                    if callee in ("encode_varint", "dump_varint", "size_varint"):
                        continue
                    # fixed-width encoding: the path must bound the field number below 16 (key < 128)
                    bounded = False
                    for k, v in p.valuation.items():
                        if k[0] == "op" and k[1] == "<" and k[2] == fnum and k[3][0] == "c" and isinstance(k[3][1], int) and v and k[3][1] <= 16:
                            bounded = True
                        if k[0] == "op" and k[1] == "<" and k[3] == fnum and k[2][0] == "c" and isinstance(k[2][1], int) and not v and k[2][1] <= 15:
                            bounded = True
                        if k[0] == "op" and k[1] == "<" and _key_wire(k[2], fnum) is not None and k[3][0] == "c" and isinstance(k[3][1], int) and v and k[3][1] <= 128:
                            bounded = True
                    if not bounded:
                        bad = bad or (t, callee, {show(k): v for k, v in p.valuation.items() if fnum in list(walk(k))})
    loc = mod.loc(ser)
    if bad:
        t, callee, guard = bad
        ctx.refuted(rule, "_serialize_single:key-through-varint", f"{callee}:{guard}", loc,
                    f"the key of a {t} field is turned into bytes by {callee} on a path guarded only by {guard}: a key is a varint, and (number << 3 | wire type) needs two bytes from field "
                    "number 16 on - one byte holds the 8-bit value with the continuation bit set and every parser misreads the field", "a field numbered 16")
    elif n_keys:
        ctx.proved(rule, "_serialize_single:key-through-varint", loc, f"{n_keys} key occurrences")
    else:
        ctx.inconclusive(rule, "_serialize_single:key-through-varint", "no key expression found", loc)


def rule_W3(ctx) -> None:
    """alternative encodings: unpacked occurrences of packable types are appended"""
    m = model(ctx)
    mod = m.mod
    load = mod.func("Message.load")
    cur_list = ("call", N("isinstance"), (N("$current"), N("list")), ())
    for t in sorted(SPEC_PACKABLE):
        w = m.wire_of(t)
        if w is None:
            continue
        def_list = ("call", N("isinstance"), (N("$default"), N("list")), ())
        paths = _load_paths(ctx, mod, t, w, assume={cur_list: True, def_list: True})
        ok = True
        for p in paths:
            if p.outcome == "raise" or not p.valuation.get(FIELD_NAME, True):
                continue
            if FIELD_NAME not in p.valuation:
                continue
            # a single (unpacked) occurrence decodes to a scalar, never to a list
            if any(v for k, v in p.valuation.items() if k[0] == "call" and k[1] == N("isinstance") and len(k[2]) == 2
                   and k[2][1] == N("list") and k[2][0] not in (N("$current"), N("$default"))):
                continue
            if not any(e.kind == "call" and dotted(e.data[1]) in ("$current.append", "$default.append") for e in p.events):
                ok = False
        if ok:
            ctx.proved("W3", f"unpacked-accepted[{t}]", mod.loc(load))
        else:
            ctx.refuted("W3", f"unpacked-accepted[{t}]", "not-appended", mod.loc(load), f"an unpacked occurrence of repeated {t} is not appended to the list")


def rule_W4(ctx) -> None:
    """non-minimal varints are accepted: the only rejections in load_varint are the bound and EOF"""
    mod = ctx.repo.mod(M_INIT)
    lv = mod.func("load_varint")
    paths = Interp(mod, fresh_calls=["read"], unroll=2).run(lv)
    ctx.count(len(paths))
    kinds = set()
    for p in paths:
        if p.outcome == "raise":
            kinds.add(dotted(p.value[1]) if p.value and p.value[0] == "call" else show(p.value) if p.value else "?")
    extra = kinds - {"ValueError", "EOFError"}
    # the atom that decides each raise must be the length bound or the emptiness of the read,
    # never the value of the decoded byte (non-minimal varints are legal)
    value_dependent = []
    for p in paths:
        if p.outcome != "raise" or not p.valuation:
            continue
        last = list(p.valuation)[-1]
        txt = show(last) if last and last[0] != "raises" else ""
        # the continuation bit (& 128) only says how long the varint is - a rejection that follows it is the length bound in
        # another form; what must not decide a rejection is the payload (& 127), the accumulated result, or the byte compared as a whole
        if "& 127" in txt or "result" in txt or ("from_bytes" in txt and "& 128" not in txt):
            value_dependent.append(txt)
    if extra:
        ctx.refuted("W4", "load_varint:rejections", f"{sorted(extra)}", mod.loc(lv), f"load_varint raises {sorted(extra)} besides the length bound and EOF")
    elif value_dependent:
        ctx.refuted("W4", "load_varint:rejections", "value-dependent", mod.loc(lv), f"load_varint rejects input depending on byte values: {sorted(set(value_dependent))[:2]} (non-minimal varints are legal)",
                    "decode_varint(b'\\x81\\x80\\x00', 0)")
    else:
        ctx.proved("W4", "load_varint:rejections", mod.loc(lv), f"raises only {sorted(kinds)}")


# ---------------------------------------------------------------------------
# Z1 - zig-zag arithmetic against its linear specification


def _resolve_parity(term: Sym, v: Sym, p: int) -> Sym:
    """conditional expressions that test the parity of v (`v & 1`, `v % 2`, compared with 0 / 1, negated) resolved for
    v of parity p"""
    def truth(c: Sym):
        if c in (OP("&", v, C(1)), OP("&", C(1), v), OP("%", v, C(2))):
            return bool(p)
        if c[0] == "op" and c[1] in ("not",):
            r = truth(c[2])
            return None if r is None else not r
        if c[0] == "op" and c[1] == "truth":
            return truth(c[2])
        if c[0] == "op" and c[1] == "==" and len(c) == 4 and c[3][0] == "c" and c[3][1] in (0, 1) and c[2] in (OP("&", v, C(1)), OP("&", C(1), v), OP("%", v, C(2))):
            return p == c[3][1]
        return None

    def rec(t: Sym) -> Sym:
        if t[0] == "ife":
            r = truth(simplify(t[1]))
            if r is not None:
                return rec(t[2] if r else t[3])
        return t

    return rec(term)


def _join_forked(decs):
    """paths that a conditional expression forked (same decisions except one atom, decided both ways) joined back into one
    entry whose value is the conditional expression"""
    decs = list(decs)
    changed = True
    while changed and len(decs) > 1:
        changed = False
        for i in range(len(decs)):
            for j in range(i + 1, len(decs)):
                a, b = decs[i], decs[j]
                if a[1] != b[1] or a[3] is None or b[3] is None or set(a[0]) != set(b[0]):
                    continue
                diff = [k for k in a[0] if a[0][k] != b[0][k]]
                if len(diff) != 1:
                    continue
                k = diff[0]
                yes, no = (a, b) if a[0][k] else (b, a)
                val = {x: y for x, y in a[0].items() if x != k}
                decs[i] = (val, a[1], a[2], ("ife", k, yes[3], no[3]))
                del decs[j]
                changed = True
                break
            if changed:
                break
    return decs


def rule_Z1(ctx, rule: str = "Z1") -> None:
    """encoder: enc(v) = 2v for v >= 0 and -2v-1 for v < 0 over the type's range;
    decoder: dec(2k) = k and dec(2k+1) = -k-1.  Decided with linear normal forms per case and intervals."""
    from ..linarith import lin, xor_mask_lemma
    from ..sym import subst

    m = model(ctx)
    mod = m.mod
    loc = mod.loc(mod.func("_preprocess_single"))
    for t, bits in (("sint32", 32), ("sint64", 64)):
        encs = [d for _, k, d in m.enc[t] if k in ("varint-transformed", "varint-plain", "varint-other")]
        if len(encs) != 1:
            ctx.inconclusive(rule, f"zigzag-encode[{t}]", f"{len(encs)} encoder terms", loc)
            continue
        term = encs[0]
        v = m.value
        verdicts = []
        for cname, rng, want in (("v >= 0", (0, 2 ** (bits - 1) - 1), (2, 0)), ("v < 0", (-(2 ** (bits - 1)), -1), (-2, -1))):
            got = lin(term, v, rng)
            if got is None and term[0] == "ife":
                pass
            if got is None:
                x = xor_mask_lemma(term, v, rng)
                if x is not None:
                    la, siv = x
                    need = 0 if want == (2, 0) else -1
                    base_ok = la == (2, 0)
                    mask = next((s_ for s_ in (term[2], term[3]) if lin(s_, v, rng) is None), None)
                    exact = mask is not None and mask[0] == "op" and mask[1] == ">>" and mask[2] == v and mask[3][0] == "c"
                    if base_ok and exact and siv != (need, need):
                        verdicts.append(("bad", f"for {cname} over the {t} range the sign term {show(mask)} takes values in [{siv[0]:.0f}, {siv[1]:.0f}] instead of the constant {need}: the shift is too small for this type"))
                        continue
                verdicts.append(("inc", f"not linear for {cname}: {show(term)}"))
            elif got != want:
                verdicts.append(("bad", f"for {cname}: encodes {got[0]}*v{got[1]:+d}, zig-zag is {want[0]}*v{want[1]:+d}"))
            else:
                verdicts.append(("ok", ""))
        if any(k == "bad" for k, _ in verdicts):
            d = next(d for k, d in verdicts if k == "bad")
            ctx.refuted(rule, f"zigzag-encode[{t}]", d.split(":")[0][:50], loc, f"{t} is encoded as {show(term)}; {d}",
                        f"round-trip a {t} value {'beyond 32 bits' if bits == 64 else 'near the range ends'}, e.g. 2**31 or -(2**31)-1")
        elif any(k == "inc" for k, _ in verdicts):
            ctx.inconclusive(rule, f"zigzag-encode[{t}]", next(d for k, d in verdicts if k == "inc"), loc)
        else:
            ctx.proved(rule, f"zigzag-encode[{t}]", loc, show(term))
    locd = mod.loc(mod.func("Message._postprocess_single"))
    for t, bits in (("sint32", 32), ("sint64", 64)):
        decs = _join_forked([d for d in m.dec[(t, 0)] if d[1] != "raise"])
        if len(decs) != 1 or decs[0][3] is None:
            ctx.inconclusive(rule, f"zigzag-decode[{t}]", f"{len(decs)} decoder terms", locd)
            continue
        term = decs[0][3]
        kk = N("$k")
        res = []
        for p, want in ((0, (1, 0)), (1, (-1, -1))):
            sub = subst(_resolve_parity(term, m.dvalue, p), lambda s_: OP("+", OP("*", C(2), kk), C(p)) if s_ == m.dvalue else None)
            res.append((lin(sub, kk, (0, 2 ** (bits - 1) - 1)), want))
        if all(g == w for g, w in res):
            ctx.proved(rule, f"zigzag-decode[{t}]", locd, show(term))
        elif any(g is None for g, _ in res):
            ctx.inconclusive(rule, f"zigzag-decode[{t}]", f"decoder {show(term)} is not linear on even/odd inputs", locd)
        else:
            ctx.refuted(rule, f"zigzag-decode[{t}]", ";".join(f"{g}" for g, _ in res), locd,
                        f"{t} is decoded as {show(term)}: on inputs 2k / 2k+1 it yields {[g for g, _ in res]}, zig-zag decoding is k / -k-1", f"parse a {t} field")


def rule_M6(ctx, rule: str = "M6") -> None:
    """a fixed-width payload is decoded by something that validates its length (struct.unpack does; int.from_bytes does not)"""
    m = model(ctx)
    mod = m.mod
    loc = mod.loc(mod.func("Message._postprocess_single"))
    ln = ("call", N("len"), (m.dvalue,), ())
    for t in ("float", "double", "fixed32", "fixed64", "sfixed32", "sfixed64"):
        w = m.wire_of(t)
        if w is None:
            continue
        bad = None
        for val, kind, d, ret in m.dec[(t, w)]:
            if kind in ("struct", "raise"):
                continue
            checked = any(contains(k, ln) for k in val)
            if not checked:
                bad = (kind, ret)
        if bad:
            ctx.refuted(rule, f"fixed-payload-length[{t}]", bad[0], loc,
                        f"a {t} payload is decoded by {show(bad[1]) if bad[1] else bad[0]}, which accepts any number of bytes: a truncated or ragged fixed-width payload (e.g. a packed run whose length is not a multiple of the width) "
                        "is decoded into a wrong number instead of being rejected", f"M().parse(<{t} field cut after 2 bytes>)")
        else:
            ctx.proved(rule, f"fixed-payload-length[{t}]", loc)


def rule_M7(ctx, rule: str = "M7") -> None:
    """text is decoded with the strict error handler, like it is encoded: a lenient handler (surrogatepass, ignore, replace ...)
    accepts ill-formed UTF-8 and yields a str that differs from what was sent or cannot be encoded again"""
    m = model(ctx)
    mod = m.mod
    loc = mod.loc(mod.func("Message._postprocess_single"))
    bad = None
    n = 0
    for val, kind, d, ret in m.dec[("string", 2)]:
        if kind != "text" or ret is None:
            continue
        n += 1
        errs = None
        if ret[0] == "call" and dotted(ret[1]) == "str":
            errs = ret[2][2] if len(ret[2]) > 2 else dict(ret[3]).get("errors")
        elif ret[0] == "call" and ret[1][0] == "a" and ret[1][2] == "decode":
            errs = ret[2][1] if len(ret[2]) > 1 else dict(ret[3]).get("errors")
        if errs is not None and errs != C("strict"):
            bad = bad or (show(errs), show(ret))
    enc_bad = None
    for val, kind, d in m.enc["string"]:
        pass
    if bad:
        ctx.refuted(rule, "string-decode:strict", bad[0], loc, f"string payloads are decoded by {bad[1]}: with the error handler {bad[0]} ill-formed UTF-8 is accepted instead of rejected, and the "
                    "resulting str (e.g. a lone surrogate) cannot be encoded again by the strict encoder", "M().parse(b'\\x0a\\x03\\xed\\xa0\\x80') then bytes(...)")
    elif not n:
        ctx.inconclusive(rule, "string-decode:strict", "no text decoding path found for string fields", loc)
    else:
        ctx.proved(rule, "string-decode:strict", loc, f"{n} decoding path(s), strict error handling")


def rule_T6b(ctx, rule: str = "T6") -> None:
    """a module-level dict used as a cache: everything the cached value is built from appears in the key"""
    mod = ctx.repo.mod(M_INIT)
    module_dicts = set()
    for st in mod.tree.body:
        tgt = None
        if isinstance(st, ast.AnnAssign) and isinstance(st.target, ast.Name) and st.value is not None:
            tgt, val = st.target.id, st.value
        elif isinstance(st, ast.Assign) and len(st.targets) == 1 and isinstance(st.targets[0], ast.Name):
            tgt, val = st.targets[0].id, st.value
        if tgt and (isinstance(val, ast.Dict) and not val.keys or (isinstance(val, ast.Call) and ast.unparse(val.func) in ("dict", "WeakValueDictionary", "weakref.WeakValueDictionary") and not val.args)):
            module_dicts.add(tgt)
    n = 0
    bad = None
    for q, fn in mod.functions():
        local_names = {a.arg for a in fn.args.args + fn.args.kwonlyargs}
        for st in ast.walk(fn):
            if isinstance(st, (ast.Assign, ast.AnnAssign, ast.For, ast.comprehension)):
                for t in ([st.target] if not isinstance(st, ast.Assign) else st.targets):
                    for x in ast.walk(t):
                        if isinstance(x, ast.Name):
                            local_names.add(x.id)
        for st in ast.walk(fn):
            # CACHE[key] = value   (value either inline or a local assigned just before)
            if isinstance(st, ast.Assign) and len(st.targets) == 1 and isinstance(st.targets[0], ast.Subscript) and isinstance(st.targets[0].value, ast.Name) \
                    and st.targets[0].value.id in module_dicts:
                n += 1
                key = st.targets[0].slice
                val = st.value
                if isinstance(val, ast.Name):
                    src = [a.value for a in ast.walk(fn) if isinstance(a, ast.Assign) and any(isinstance(t, ast.Name) and t.id == val.id for t in a.targets)
                           and not (isinstance(a.value, ast.Call) and isinstance(a.value.func, ast.Attribute) and a.value.func.attr == "get")]
                else:
                    src = [val]
                key_exprs = [key]
                if isinstance(key, ast.Name):
                    # the key was put together in a local first: what it was assigned
                    key_exprs += [a.value for a in ast.walk(fn) if isinstance(a, ast.Assign) and any(isinstance(t, ast.Name) and t.id == key.id for t in a.targets)]
                key_deps = {ast.unparse(x) for k_ in key_exprs for x in ast.walk(k_) if isinstance(x, (ast.Name, ast.Attribute))}
                val_deps = set()
                for v in src:
                    for x in ast.walk(v):
                        if isinstance(x, ast.Attribute) and isinstance(x.value, ast.Name) and x.value.id in local_names:
                            val_deps.add(ast.unparse(x))
                        elif isinstance(x, ast.Name) and x.id in local_names and not any(isinstance(p_, ast.Attribute) and p_.value is x for v2 in src for p_ in ast.walk(v2)):
                            val_deps.add(x.id)
                missing = sorted(d for d in val_deps if d not in key_deps and d.split(".")[0] not in key_deps)
                if missing:
                    bad = (q, st, missing, ast.unparse(key))
    if bad:
        q, st, missing, key = bad
        ctx.refuted(rule, "cache-key-covers-inputs", f"{q}:{','.join(missing)}", mod.loc(st),
                    f"{q} caches a value in a module-level dict under the key {key}, but the cached value is also built from {missing}: two requests that agree on the key and differ "
                    "there share one (wrong) entry - e.g. the entry class of map<string,sint64> reused for map<string,int64>", "two map fields with equal Python types and different proto types")
    else:
        ctx.proved(rule, "cache-key-covers-inputs", M_INIT, f"{n} module-level cache stores")


def rule_T6(ctx, rule: str = "T6") -> None:
    """no value-keyed memoisation on the codec path: a cache keyed by == / hash conflates 0.0 with -0.0 and 1 with True and 1.0"""
    mod = ctx.repo.mod(M_INIT)
    cached = []
    for q, fn in mod.functions():
        for d in getattr(fn, "decorator_list", []):
            txt = ast.unparse(d)
            if "lru_cache" in txt or txt.split("(")[0].split(".")[-1] in ("cache", "memoize", "cached"):
                cached.append((q, fn))
    bad = []
    for q, fn in cached:
        params = [a.arg for a in fn.args.args]
        # is it called with a field value (a parameter named value/item/v of an encoder/decoder function)?
        for cq, caller in mod.functions():
            for c in ast.walk(caller):
                if isinstance(c, ast.Call) and ast.unparse(c.func).split(".")[-1] == q.split(".")[-1]:
                    args = [ast.unparse(a) for a in c.args] + [ast.unparse(k.value) for k in c.keywords]
                    if any(a in ("value", "item", "v", "k", "decoded") for a in args):
                        bad.append((q, cq, c))
    if bad:
        q, cq, c = bad[0]
        ctx.refuted(rule, "no-value-keyed-cache-on-codec-path", q, mod.loc(c),
                    f"{q} is memoised (cache keyed by equality/hash of its arguments) and {cq} calls it with a field value: 0.0 == -0.0 and 1 == True == 1.0 share one cache entry, "
                    "so the bytes produced for a value depend on which equal-but-distinct value was encoded first in the process",
                    "bytes(M(xs=[0.0])) then bytes(M(xs=[-0.0]))")
    else:
        ctx.proved(rule, "no-value-keyed-cache-on-codec-path", M_INIT, f"{len(cached)} memoised functions, none on the value path")
    rule_T6b(ctx, rule)
