"""C06 - proto3 defaults and field presence (D1-D5)."""
from . import codec, presence
from .c09 import rule_L1

PROP = "C06"
TECHNIQUE = "guard truth tables by finite-domain abstract interpretation of dump/__len__ against the proto3 presence table; sentinel agreement; write-effect analysis"
EXPLANATION = (
    "Static presence check: the emission guard of dump and __len__ (composed with the single-field helper by inlining) is evaluated "
    "as a boolean function over the code's own atoms for a matrix of presence scenarios x wire classes and compared with the proto3 "
    "field-presence table; every writer of the 'unset' sentinel is compared with every presence reader for optional in {False, True}; "
    "the lazy default materialisation is shown to be a raw store guarded by the placeholder test; every decoder is shown to set the "
    "presence flag on all normal paths; the default generator covers every annotation shape the plugin emits."
)
RULE_TEXT = "obligation = (rule, emitter, wire class, scenario) or (rule, function); evaluations = abstract paths; non-trivial = distinct scenario rows"


def _u2b(ctx) -> None:
    from .decode import rule_U2b
    rule_U2b(ctx)       # a record that is not converted (wire type of another schema) must not select / set any member


def _v10(ctx) -> None:
    from .c14 import rule_V10
    rule_V10(ctx)       # dump skips what equals its default: equality has to be decided on the fields, not on presence flags


def run(ctx) -> None:
    for name, fn in (("D1", presence.rule_D1), ("D2", presence.rule_D2), ("D3", presence.rule_D3), ("D4", presence.rule_D4), ("D5", presence.rule_D5), ("T5", codec.rule_T5), ("V7", presence.rule_V7), ("D6", presence.rule_D6), ("D7", presence.rule_D7), ("D8", presence.rule_D8), ("D9", presence.rule_D9), ("O2", presence.rule_O2), ("U2b", _u2b), ("V10", _v10)):
        ctx.rules_run.append(name)
        fn(ctx)
    from . import jsonrules
    ctx.rules_run.append("J4")
    jsonrules.rule_J4(ctx)      # the dict / JSON load sets whatever is named with a non-null value, also at its default ({} / 0 / "")
    ctx.oracle("proto3 field presence table (embedded): implicit fields skip the default; optional / oneof / wrapper / message presence is explicit")
