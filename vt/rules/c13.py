"""C13 - cross-package type references (X1-X4). Thin claim: plumbing only."""
from __future__ import annotations

import ast
from typing import Dict, List, Set

from ..absint import Interp
from ..src import AnalysisError, M_IMPORTING, M_INIT
from ..sym import A, C, N, contains, dotted, show, walk
from . import template

PROP = "C13"
TECHNIQUE = "producer/consumer plumbing across models.py and the template (Jinja AST order), alias def/use and dispatch-order analysis of compile/importing.py by E2"
EXPLANATION = (
    "Static plumbing check (thin, and said so): every type-reference call registers its import line in the output file's imports_end "
    "and the template renders that set at module level, after every render-time producer; in each reference_* helper the alias bound "
    "by the emitted import line is the qualifier of the returned (quoted) reference; get_type_reference decides the package relation "
    "on component lists in the order absolute / same / descendant / ancestor / cousin; forward references are resolved in the defining "
    "module's namespace. Whether the produced strings denote the right class for every package topology depends on Python's import "
    "semantics and is not decided."
)
RULE_TEXT = "obligation = (rule, call site / helper / dispatch step); evaluations = abstract paths + template nodes; non-trivial = distinct sites"


def rule_X2(ctx) -> None:
    mod = ctx.repo.mod(M_IMPORTING)
    n = 0
    for q, fn in mod.functions():
        if not q.startswith("reference_"):
            continue
        n += 1
        ctx.analysed(q)
        paths = Interp(mod).run(fn)
        ctx.count(len(paths))
        bad = []
        for p in paths:
            if p.outcome != "return" or p.value is None:
                continue
            ret = p.value
            txt = show(ret)
            parts = ret[1] if ret[0] == "fstr" else None
            quoted = parts is not None and parts[0][0] == "c" and str(parts[0][1]).startswith('"') and parts[-1][0] == "c" and str(parts[-1][1]).endswith('"')
            if not quoted:
                bad.append(f"returns an unquoted reference {txt}")
                continue
            adds = [e for e in p.events if e.kind == "call" and dotted(e.data[1]).endswith(".add")]
            holes = [x[1] for x in parts if x[0] == "fmt"]
            if not adds:
                if len(holes) != 1:
                    bad.append(f"no import registered but the reference {txt} is qualified")
                continue
            imp = adds[0].data[2][0]
            iparts = imp[1] if imp[0] == "fstr" else ()
            itxt = "".join(str(x[1]) if x[0] == "c" else "{}" for x in iparts)
            ihole = [x[1] for x in iparts if x[0] == "fmt"]
            bound = ihole[-1] if ihole else None       # `... as {alias}` or `import {name}`: the last hole is the bound name
            if not (itxt.rstrip().endswith("{}") and (" as {}" in itxt or "import {}" in itxt)):
                bad.append(f"import line {show(imp)} does not end with the bound name")
                continue
            if holes[0] != bound:
                bad.append(f"import line binds {show(bound) if bound else None} but the reference is qualified by {show(holes[0])}")
        if bad:
            ctx.refuted("X2", f"{q}:alias-def-use", bad[0][:80], mod.loc(fn), f"{q}: {bad[0]}", "a field referring to a type in such a package")
        else:
            ctx.proved("X2", f"{q}:alias-def-use", mod.loc(fn), f"{len(paths)} paths")
    ctx.floor("X2", "reference_* helpers", n, 5)


def rule_X3(ctx) -> None:
    mod = ctx.repo.mod(M_IMPORTING)
    fn = mod.func("get_type_reference")
    ctx.analysed("get_type_reference")
    paths = Interp(mod, assume={N("unwrap"): False}).run(fn)
    ctx.count(len(paths))
    order: Dict[str, List[str]] = {}
    string_tests = []
    for p in paths:
        if p.outcome != "return" or p.value is None or p.value[0] != "call":
            continue
        helper = dotted(p.value[1])
        keys = [k for k in p.valuation if k[0] != "raises"]
        order[helper] = [show(k) for k in keys]
        for k in keys:
            for t in walk(k):
                if t[0] == "call" and t[1][0] == "a" and t[1][2] in ("startswith", "endswith"):
                    string_tests.append(show(k))
    want = ["reference_absolute", "reference_sibling", "reference_descendent", "reference_ancestor", "reference_cousin"]
    missing = [w for w in want if w not in order]
    if missing:
        ctx.refuted("X3", "get_type_reference:dispatch", "missing:" + ",".join(missing), mod.loc(fn), f"get_type_reference never returns through {missing}")
        return
    depth = [len(order[w]) for w in want]
    # each later case is reached only after the tests of the earlier ones failed
    mono = all(depth[i] <= depth[i + 1] for i in range(len(depth) - 1)) and depth[-1] == depth[-2]
    if string_tests:
        ctx.refuted("X3", "get_type_reference:dispatch", "string-prefix-test", mod.loc(fn),
                    f"the package relation is decided with a string prefix test ({string_tests[0]}): `foo.bar` is a string prefix of `foo.barista` without being its ancestor package",
                    "packages foo.bar and foo.barista.x")
    elif not mono:
        ctx.refuted("X3", "get_type_reference:dispatch", "order", mod.loc(fn), f"dispatch order is not absolute/same/descendant/ancestor/cousin: {order}")
    else:
        ctx.proved("X3", "get_type_reference:dispatch", mod.loc(fn), " < ".join(want))


def rule_X4(ctx) -> None:
    mod = ctx.repo.mod(M_INIT)
    fn = mod.func("Message._type_hints")
    paths = Interp(mod).run(fn)
    ok = False
    for p in paths:
        v = p.value
        if p.outcome == "return" and v is not None and v[0] == "call" and dotted(v[1]) == "get_type_hints" and len(v[2]) >= 2:
            ns = v[2][1]
            if show(ns) == "sys.modules[cls.__module__].__dict__":
                ok = True
    if ok:
        ctx.proved("X4", "_type_hints:defining-module-namespace", mod.loc(fn))
    else:
        ctx.refuted("X4", "_type_hints:defining-module-namespace", "other-namespace", mod.loc(fn),
                    "forward-reference strings are not resolved in sys.modules[cls.__module__].__dict__: references to aliases imported at the bottom of the generated module do not resolve")


def run(ctx) -> None:
    for name, fn in (("X1", template.rule_X1), ("X2", rule_X2), ("X3", rule_X3), ("X4", rule_X4)):
        ctx.rules_run.append(name)
        fn(ctx)
    ctx.notes.append("NOT DECIDED: relative-import depth arithmetic, alias collisions, circular import behaviour")
