"""C13 - cross-package type references (X1-X4). Thin claim: plumbing only."""
from __future__ import annotations

import ast
from typing import Dict, List, Set

from ..absint import Interp
from ..src import AnalysisError, M_IMPORTING, M_INIT
from ..sym import walk as walk_
from ..sym import A, C, N, contains, dotted, show, walk
from . import template

PROP = "C13"
TECHNIQUE = "producer/consumer plumbing across models.py and the template (Jinja AST order), alias def/use and dispatch-order analysis of compile/importing.py by E2"
EXPLANATION = (
    "Static plumbing check (thin, and said so): every type-reference call registers its import line in the output file's imports_end "
    "and the template renders that set at module level, after every render-time producer; in each reference_* helper the alias bound "
    "by the emitted import line is the qualifier of the returned (quoted) reference; get_type_reference decides the package relation "
    "on component lists in the order absolute / same / descendant / ancestor / cousin; forward references are resolved in the defining "
    "module's namespace. Whether the produced strings denote the right class for every package topology depends on Python's import "
    "semantics and is not decided."
)
RULE_TEXT = "obligation = (rule, call site / helper / dispatch step); evaluations = abstract paths + template nodes; non-trivial = distinct sites"


def rule_X2(ctx) -> None:
    mod = ctx.repo.mod(M_IMPORTING)
    n = 0
    for q, fn in mod.functions():
        if not q.startswith("reference_"):
            continue
        n += 1
        ctx.analysed(q)
        paths = Interp(mod).run(fn)
        ctx.count(len(paths))
        bad = []
        for p in paths:
            if p.outcome != "return" or p.value is None:
                continue
            ret = p.value
            txt = show(ret)
            parts = ret[1] if ret[0] == "fstr" else None
            quoted = parts is not None and parts[0][0] == "c" and str(parts[0][1]).startswith('"') and parts[-1][0] == "c" and str(parts[-1][1]).endswith('"')
            if not quoted:
                bad.append(f"returns an unquoted reference {txt}")
                continue
            adds = [e for e in p.events if e.kind == "call" and dotted(e.data[1]).endswith(".add")]
            holes = [x[1] for x in parts if x[0] == "fmt"]
            if not adds:
                if len(holes) != 1:
                    bad.append(f"no import registered but the reference {txt} is qualified")
                continue
            imp = adds[0].data[2][0]
            iparts = imp[1] if imp[0] == "fstr" else ()
            itxt = "".join(str(x[1]) if x[0] == "c" else "{}" for x in iparts)
            ihole = [x[1] for x in iparts if x[0] == "fmt"]
            bound = ihole[-1] if ihole else None       # `... as {alias}` or `import {name}`: the last hole is the bound name
            if not (itxt.rstrip().endswith("{}") and (" as {}" in itxt or "import {}" in itxt)):
                bad.append(f"import line {show(imp)} does not end with the bound name")
                continue
            if holes[0] != bound:
                bad.append(f"import line binds {show(bound) if bound else None} but the reference is qualified by {show(holes[0])}")
        if bad:
            ctx.refuted("X2", f"{q}:alias-def-use", bad[0][:80], mod.loc(fn), f"{q}: {bad[0]}", "a field referring to a type in such a package")
        else:
            ctx.proved("X2", f"{q}:alias-def-use", mod.loc(fn), f"{len(paths)} paths")
    ctx.floor("X2", "reference_* helpers", n, 5)


def rule_X3(ctx) -> None:
    mod = ctx.repo.mod(M_IMPORTING)
    fn = mod.func("get_type_reference")
    ctx.analysed("get_type_reference")
    paths = Interp(mod, assume={N("unwrap"): False}).run(fn)
    ctx.count(len(paths))
    order: Dict[str, List[str]] = {}
    string_tests = []
    for p in paths:
        if p.outcome != "return" or p.value is None or p.value[0] != "call":
            continue
        helper = dotted(p.value[1])
        keys = [k for k in p.valuation if k[0] != "raises"]
        order[helper] = [show(k) for k in keys]
        for k in keys:
            for t in walk(k):
                if t[0] == "call" and t[1][0] == "a" and t[1][2] in ("startswith", "endswith"):
                    string_tests.append(show(k))
    want = ["reference_absolute", "reference_sibling", "reference_descendent", "reference_ancestor", "reference_cousin"]
    missing = [w for w in want if w not in order]
    if missing:
        ctx.refuted("X3", "get_type_reference:dispatch", "missing:" + ",".join(missing), mod.loc(fn), f"get_type_reference never returns through {missing}")
        return
    depth = [len(order[w]) for w in want]
    # each later case is reached only after the tests of the earlier ones failed
    mono = all(depth[i] <= depth[i + 1] for i in range(len(depth) - 1)) and depth[-1] == depth[-2]
    if string_tests:
        ctx.refuted("X3", "get_type_reference:dispatch", "string-prefix-test", mod.loc(fn),
                    f"the package relation is decided with a string prefix test ({string_tests[0]}): `foo.bar` is a string prefix of `foo.barista` without being its ancestor package",
                    "packages foo.bar and foo.barista.x")
    elif not mono:
        ctx.refuted("X3", "get_type_reference:dispatch", "order", mod.loc(fn), f"dispatch order is not absolute/same/descendant/ancestor/cousin: {order}")
    else:
        ctx.proved("X3", "get_type_reference:dispatch", mod.loc(fn), " < ".join(want))


def rule_X5(ctx) -> None:
    """the alias must distinguish every pair of packages that the import path distinguishes (necessary for collision-freedom):
    it has to depend on the distance walked up and on the path below the shared ancestor"""
    mod = ctx.repo.mod(M_IMPORTING)
    for q in ("reference_cousin", "reference_ancestor"):
        fn = mod.func(q)
        paths = Interp(mod).run(fn)
        ctx.count(len(paths))
        bad = None
        n = 0
        for p in paths:
            adds = [e for e in p.events if e.kind == "call" and dotted(e.data[1]).endswith(".add")]
            if not adds or p.value is None or p.value[0] != "fstr":
                continue
            imp = adds[0].data[2][0]
            if imp[0] != "fstr":
                continue
            holes = [x[1] for x in imp[1] if x[0] == "fmt"]
            if len(holes) < 2:
                continue
            n += 1
            from_path, alias = holes[0], holes[-1]
            # repeat counts in the import path ('.' * distance): the alias has to contain the same distance term
            def repeats(t):
                return [x[3] if x[2][0] == "c" else x[2] for x in walk(t) if x[0] == "op" and x[1] == "*" and len(x) == 4 and
                        (x[2][0] == "c" and isinstance(x[2][1], str) or x[3][0] == "c" and isinstance(x[3][1], str))]
            def core(d):
                # the distance up to an additive constant: '.' * (up + 1) and '_' * up walk the same distance
                while d[0] == "op" and d[1] in ("+", "-") and len(d) == 4 and (d[3][0] == "c" or (d[2][0] == "c" and d[1] == "+")) :
                    d = d[2] if d[3][0] == "c" else d[3]
                return d
            need = repeats(from_path)
            missing = [d for d in need if not contains(alias, d) and not (core(d)[0] != "c" and contains(alias, core(d)))]
            if need and missing:
                bad = (q, show(alias), [show(d) for d in missing])
        name = f"{q}:alias-depends-on-distance"
        if bad:
            ctx.refuted("X5", name, ",".join(bad[2])[:60], mod.loc(fn),
                        f"the alias {bad[1]} does not depend on how far up the import walks (the `from` path does): two packages with the same path below different shared ancestors "
                        "get the same alias and the later import shadows the earlier one", "module a.b.c referring to a.x.T and a.b.x.T")
        elif n == 0:
            ctx.inconclusive("X5", name, "import line / alias not in the recognised form", mod.loc(fn))
        else:
            ctx.proved("X5", name, mod.loc(fn))


def rule_X6(ctx) -> None:
    """RPC input and output types are referenced the same way (never unwrapped)"""
    from ..src import M_MODELS

    mod = ctx.repo.mod(M_MODELS)
    kws = {}
    for q in ("ServiceMethodCompiler.py_input_message_type", "ServiceMethodCompiler.py_output_message_type"):
        fn = mod.func(q)
        calls = [c for c in ast.walk(fn) if isinstance(c, ast.Call) and ast.unparse(c.func) == "get_type_reference"]
        if len(calls) != 1:
            ctx.inconclusive("X6", "rpc-types:same-reference-mode", f"{q}: {len(calls)} get_type_reference calls", mod.loc(fn))
            return
        kws[q] = {k.arg: ast.unparse(k.value) for k in calls[0].keywords if k.arg not in ("source_type",)}
    a, b = kws.values()
    if a == b and a.get("unwrap") == "False":
        ctx.proved("X6", "rpc-types:same-reference-mode", mod.rel)
    else:
        diff = {k: (a.get(k), b.get(k)) for k in set(a) | set(b) if a.get(k) != b.get(k)}
        ctx.refuted("X6", "rpc-types:same-reference-mode", str(diff or {"unwrap": a.get("unwrap")})[:80], mod.rel,
                    f"the RPC input and output types are referenced with different arguments {diff}: without unwrap=False a wrapper / Timestamp / Duration message type is replaced by "
                    "Optional[...] / datetime / timedelta, which is not a message class the channel can use", "rpc GetName(Req) returns (google.protobuf.StringValue)")


def rule_X4(ctx) -> None:
    mod = ctx.repo.mod(M_INIT)
    fn = mod.func("Message._type_hints")
    paths = Interp(mod).run(fn)
    ok = False
    for p in paths:
        v = p.value
        if p.outcome == "return" and v is not None and v[0] == "call" and dotted(v[1]) == "get_type_hints" and len(v[2]) >= 2:
            ns = v[2][1]
            if show(ns) in ("sys.modules[cls.__module__].__dict__", "vars(sys.modules[cls.__module__])"):
                ok = True
    if ok:
        ctx.proved("X4", "_type_hints:defining-module-namespace", mod.loc(fn))
    else:
        ctx.refuted("X4", "_type_hints:defining-module-namespace", "other-namespace", mod.loc(fn),
                    "forward-reference strings are not resolved in sys.modules[cls.__module__].__dict__: references to aliases imported at the bottom of the generated module do not resolve")


def _same_namespace(fn: ast.AST, g: ast.AST, l: ast.AST) -> bool:
    """the two namespace arguments denote the same object: the same local name, or the same expression of the module's dict"""
    if isinstance(g, ast.Name) and isinstance(l, ast.Name):
        return g.id == l.id
    def norm(e: ast.AST) -> str:
        if isinstance(e, ast.Name):
            binds = [a.value for a in ast.walk(fn) if isinstance(a, ast.Assign) and len(a.targets) == 1 and isinstance(a.targets[0], ast.Name) and a.targets[0].id == e.id]
            if len(binds) == 1:
                return norm(binds[0])
        t = ast.unparse(e)
        return t[5:-1] + ".__dict__" if t.startswith("vars(") and t.endswith(")") else t
    return not isinstance(l, (ast.Dict, ast.Constant)) and norm(g) == norm(l) and "dict(" not in ast.unparse(l) and ".copy()" not in ast.unparse(l)


def rule_X7(ctx) -> None:
    """forward references in annotations are resolved against the module namespace only: get_type_hints is given an explicit
    local namespace (without one, typing falls back to vars(cls), where dataclass field defaults shadow import aliases)"""
    mod = ctx.repo.mod(M_INIT)
    fn = mod.func("Message._type_hints")
    ctx.analysed("Message._type_hints")
    calls = [c for c in ast.walk(fn) if isinstance(c, ast.Call) and ast.unparse(c.func).split(".")[-1] == "get_type_hints"]
    if not calls:
        ctx.inconclusive("X7", "_type_hints:explicit-local-namespace", "get_type_hints call not found", mod.loc(fn))
        return
    for c in calls:
        has_local = len(c.args) >= 3 or any(k.arg == "localns" for k in c.keywords)
        local = c.args[2] if len(c.args) >= 3 else next((k.value for k in c.keywords if k.arg == "localns"), None)
        if not has_local or (isinstance(local, ast.Constant) and local.value is None):
            ctx.refuted("X7", "_type_hints:explicit-local-namespace", ast.unparse(c), mod.loc(c),
                        f"`{ast.unparse(c)}` passes no local namespace: typing then evaluates the annotation strings with vars(cls) as locals, so a field whose name equals the alias "
                        "of an imported package (descendant packages are imported under their plain name: `from . import items`) resolves to the field's default object instead of the module",
                        "message Order { shop.items.Item items = 1; }")
        elif len(c.args) >= 2 and _same_namespace(fn, c.args[1], local):
            ctx.refuted("X7", "_type_hints:explicit-local-namespace", f"localns is globalns ({ast.unparse(local)})", mod.loc(c),
                        "the module namespace is passed as both global and local namespace: when localns is globalns typing caches the value a ForwardRef evaluated to, and because "
                        "subscripted generics (List[\"pkg__.T\"], Dict[str, ...], Optional[...]) are cached process-wide by their text, a second module that spells a reference the same way "
                        "gets the first module's class", "two generated modules with the same quoted reference inside List[...] that denote different classes")
        elif ("vars(" in ast.unparse(local) and "modules" not in ast.unparse(local)) or "__dict__" in ast.unparse(local) and "module" not in ast.unparse(local):
            ctx.refuted("X7", "_type_hints:explicit-local-namespace", ast.unparse(local), mod.loc(c), "the class namespace is passed as local namespace: field defaults shadow import aliases")
        else:
            ctx.proved("X7", "_type_hints:explicit-local-namespace", mod.loc(c), ast.unparse(local))


def rule_X8(ctx) -> None:
    """class names and reference names of nested types agree: traverse() renames a nested type and hands exactly that new
    name down as the prefix of its own nested types - to the recursive call, or into the work list of an iterative walk
    (path semantics of the renaming code; the form of the new name itself is P13's business)"""
    parser = ctx.repo.mod("src/betterproto/plugin/parser.py")
    tr = parser.func("traverse")
    ctx.analysed("traverse")
    fns = [n for n in ast.walk(tr) if isinstance(n, (ast.FunctionDef, ast.AsyncFunctionDef))]
    n_hand = 0
    bad = None
    n_store = 0
    for f in fns:
        try:
            paths = Interp(parser, fork_while=True, heap=True).run(f)     # a read of item.name after the renaming sees the new name
        except AnalysisError:
            continue
        ctx.count(len(paths))
        inner_names = {x.name for x in fns}
        for p in paths:
            new_name = None
            for e in p.events:
                if e.kind == "store" and e.data[0][0] == "a" and e.data[0][2] == "name":
                    new_name = e.data[1]
                    n_store += 1
                if e.kind != "call" or new_name is None:
                    continue
                c = e.data
                handed = None
                fname = dotted(c[1])
                if (c[1][0] == "opaque" or fname in inner_names) and len(c[2]) >= 3:
                    handed = c[2][2]                      # _traverse(path, items, prefix)
                elif (c[1][0] == "opaque" or fname in inner_names) and dict(c[3]).get("prefix") is not None:
                    handed = dict(c[3])["prefix"]
                elif c[1][0] == "a" and c[1][2] in ("append", "appendleft", "insert") and c[2] and c[2][-1][0] == "tuple" and len(c[2][-1][1]) == 3:
                    handed = c[2][-1][1][2]               # pending.append((items, path, prefix))
                if handed is None:
                    continue
                n_hand += 1
                if handed != new_name:
                    bad = bad or (e, handed, new_name)
    if not n_store or not n_hand:
        ctx.inconclusive("X8", "traverse:nested-prefix", "renaming loop not recognised", parser.loc(tr))
    elif bad:
        e, h, new_name = bad
        ctx.refuted("X8", "traverse:nested-prefix", show(h)[:60], f"{parser.rel}:{e.line}",
                    f"a nested type is renamed to {show(new_name)} but its own nested types are given the prefix {show(h)}: classes of types nested two or more levels deep are "
                    "emitted under a name (OuterOuterMidLeaf) that differs from the one references to them are compiled to (OuterMidLeaf)", "message Outer { message Mid { message Leaf {} } }")
    else:
        ctx.proved("X8", "traverse:nested-prefix", parser.loc(tr), f"{n_hand} hand-downs of the new name")


def rule_X9(ctx) -> None:
    """the type name split off a fully qualified reference keeps every component of a nested type: with a package it is the
    remainder after the package (the regex group), without one it is the whole text less its leading dots - never only
    the last component (".Outer.Inner" must stay "Outer.Inner", the class is OuterInner)"""
    mod = ctx.repo.mod(M_IMPORTING)
    fn = mod.func("parse_source_type_name")
    ctx.analysed("parse_source_type_name")
    arg = N(fn.args.args[0].arg)
    cname = "parse_source_type_name:keeps-nested-components"
    # by evaluation at distinguished references (protobuf convention, as the function's own documentation states it: packages
    # are lower case, type names start with a capital): the path each input takes and the pair it returns, computed with the
    # analyser's evaluator from the terms of E2 - no code of the repository is run
    from ..concrete import Unknown as _Unk, ev as _cev
    table = [(".Outer.Inner", ("", "Outer.Inner")), ("Outer.Inner", ("", "Outer.Inner")), (".pkg.Outer.Inner", ("pkg", "Outer.Inner")), (".pkg.sub.Msg", ("pkg.sub", "Msg")),
             (".Msg", ("", "Msg")), ("Msg", ("", "Msg")), (".a.b.Outer.Mid.Leaf", ("a.b", "Outer.Mid.Leaf")), (".a_1.b2.Msg", ("a_1.b2", "Msg"))]
    decided = []
    for text, want in table:
        try:
            ps = Interp(mod, bindings={arg: text}, auto_inline=True, fork_ifexp=True).run(fn)
        except Exception:
            decided = None
            break
        ctx.count(len(ps))
        taken = []
        try:
            for p in ps:
                if all(bool(_cev(k, {})) == v for k, v in p.valuation.items()):
                    taken.append(p)
            if len(taken) != 1 or taken[0].outcome != "return" or taken[0].value is None:
                decided = None
                break
            got = _cev(taken[0].value, {})
        except (_Unk, Exception):
            decided = None
            break
        decided.append((text, want, tuple(got) if isinstance(got, (tuple, list)) else got))
    if decided is not None:
        wrong = [(t_, w_, g_) for t_, w_, g_ in decided if g_ != w_]
        if wrong:
            t_, w_, g_ = wrong[0]
            ctx.refuted("X9", cname, f"{t_}->{g_}", mod.loc(fn),
                        f"the reference {t_!r} is split into {g_!r} instead of {w_!r}: " + ("only part of the nested type name survives, so the reference is compiled to a class name that "
                        "differs from the one the type is generated under" if g_[0] == w_[0] else "the package part is wrong, so the reference is resolved against another package"),
                        f"a field of type {t_}")
        else:
            ctx.proved("X9", cname, mod.loc(fn), f"{len(decided)} distinguished references evaluated")
        return
    paths = Interp(mod, fork_ifexp=True).run(fn)
    ctx.count(len(paths))
    bad = None
    unknown = None
    n = 0
    for p in paths:
        if p.outcome != "return" or p.value is None or p.value[0] != "tuple" or len(p.value[1]) != 2:
            continue
        n += 1
        name = p.value[1][1]
        if any(t[0] == "call" and (dotted(t[1]).endswith(".group") or dotted(t[1]).endswith(".groups")) for t in walk_(name)):
            continue                               # the part the pattern captured after the package
        calls_ = [t for t in walk_(name) if t[0] == "call" and t[1][0] == "a"]
        meths = {t[1][2] for t in calls_}
        if name == arg or (meths <= {"lstrip", "removeprefix", "strip"} and meths):
            continue
        if name[0] == "sub" and name[1] == arg and name[2][0] == "slice":
            continue
        if meths & {"rpartition", "rsplit", "split", "partition"} or (name[0] in ("sub", "item") and any(t[0] == "call" and t[1][0] == "a" and t[1][2] in ("rpartition", "rsplit", "split") for t in walk_(name))):
            bad = bad or show(name)
        else:
            unknown = unknown or show(name)
    if not n:
        ctx.inconclusive("X9", cname, "no (package, name) return found", mod.loc(fn))
    elif bad:
        ctx.refuted("X9", cname, bad[:60], mod.loc(fn),
                    f"for a reference without a package the type name is taken as {bad}: only the last component survives, so a nested type of a package-less file ('.Outer.Inner') is "
                    "referenced as 'Inner' while its class is generated as OuterInner", "a proto file without a package with a nested message used as a field type")
    elif unknown:
        ctx.inconclusive("X9", cname, f"name expression {unknown} not recognised", mod.loc(fn))
    else:
        ctx.proved("X9", cname, mod.loc(fn), f"{n} returning paths")


X10_TOPOLOGIES = {
    # helper -> (current package, referenced package) pairs; components repeat on purpose (a.b.a, a.a)
    "reference_descendent": [(("a",), ("a", "b")), (("a",), ("a", "b", "c")), (("a",), ("a", "b", "a")), (("a",), ("a", "a")), (("a", "b"), ("a", "b", "b")),
                             ((), ("x",)), ((), ("x", "y")), (("a", "b"), ("a", "b", "a", "b")), (("p", "q"), ("p", "q", "r", "p", "s"))],
    "reference_ancestor": [(("a", "b"), ("a",)), (("a", "b", "c"), ("a",)), (("a", "a"), ("a",)), (("a", "b", "a"), ("a", "b")), (("a", "b", "c", "d"), ("a", "b"))],
    "reference_cousin": [(("a", "x"), ("a", "y")), (("a", "x"), ("a", "b", "c")), (("a",), ("b",)), (("a", "b"), ("c", "d", "e")), (("a", "b", "c"), ("a", "d")),
                         (("a", "x"), ("a", "y", "x")), (("a", "b"), ("b", "a")), (("a", "x", "y"), ("a", "z", "x", "y"))],
}


def _resolve_relative(cur, line: str):
    """absolute module named by `from <dots><path> import <name> [as ..]` written in package `cur` (Python's relative import
    rule: one dot is the package itself, each further dot one level up); None when the line has another form"""
    import re as _re
    m = _re.fullmatch(r"from (\.+)([A-Za-z0-9_.]*) import ([A-Za-z0-9_]+)(?: as .+)?", line.strip())
    if not m:
        return None
    up = len(m.group(1)) - 1
    if up > len(cur):
        return ("beyond-top-level",)
    base = tuple(cur[: len(cur) - up])
    path = tuple(x for x in m.group(2).split(".") if x)
    return base + path + (m.group(3),)


def rule_X10(ctx, rule: str = "X10") -> None:
    """the relative import line each reference_* helper registers names the referenced package: the helper is partially
    evaluated (E2, constant package lists) on a table of package topologies - repeated components included - and the line it
    adds to the imports is resolved by Python's relative-import rule from the current package"""
    mod = ctx.repo.mod(M_IMPORTING)
    n_ob = 0
    for q, table in X10_TOPOLOGIES.items():
        fn = mod.func(q)
        ctx.analysed(q)
        params = [a.arg for a in fn.args.args]
        if not {"current_package", "py_package", "py_type"} <= set(params):
            ctx.inconclusive(rule, f"{q}:import-names-the-package", f"parameters {params} not recognised", mod.loc(fn))
            continue
        bad = None
        unknown = None
        for cur, py in table:
            b = {N("current_package"): tuple(cur), N("py_package"): tuple(py), N("py_type"): "T"}
            paths = Interp(mod, bindings=b, auto_inline=True, fork_ifexp=True).run(fn)
            ctx.count(len(paths))
            n_ob += 1
            rets = [p for p in paths if p.outcome == "return"]
            if len(paths) != 1 or len(rets) != 1:
                outcome = ",".join(sorted({p.outcome + (":" + dotted(p.value[1]) if p.outcome == "raise" and p.value and p.value[0] == "call" else "") for p in paths}))
                if all(p.outcome == "raise" for p in paths) and paths:
                    bad = bad or (cur, py, f"raises ({outcome})", None)
                else:
                    unknown = unknown or f"{cur}->{py}: {len(paths)} paths ({outcome})"
                continue
            adds = [e for e in rets[0].events if e.kind == "call" and dotted(e.data[1]).endswith(".add") and e.data[2]]
            if len(adds) != 1:
                unknown = unknown or f"{cur}->{py}: {len(adds)} imports registered"
                continue
            line = adds[0].data[2][0]
            if line[0] == "c" and isinstance(line[1], str):
                text = line[1]
            elif line[0] == "fstr":
                # holes are allowed only after ` as ` (the alias, built by the repository's casing function)
                text = ""
                for part in line[1]:
                    if part[0] == "c":
                        text += str(part[1])
                    elif " as " in text:
                        text += "ALIAS"
                    else:
                        text = None
                        break
            else:
                text = None
            if text is None:
                unknown = unknown or f"{cur}->{py}: import line {show(line)[:80]} is not constant up to the alias"
                continue
            got = _resolve_relative(cur, text)
            if got is None:
                unknown = unknown or f"{cur}->{py}: import line {text!r} not of the relative form"
            elif got != tuple(py):
                bad = bad or (cur, py, text, got)
        name = f"{q}:import-names-the-package"
        if bad:
            cur, py, text, got = bad
            ctx.refuted(rule, name, f"{'.'.join(cur) or '<root>'}->{'.'.join(py)}", mod.loc(fn),
                        f"from package {'.'.join(cur) or '<root>'!r} a type of package {'.'.join(py)!r} is imported with {text!r}"
                        + (f", which Python resolves to {'.'.join(got)!r}" if got else "") + ": the reference denotes another module (or generation fails)",
                        f"packages {'.'.join(cur) or '<root>'} and {'.'.join(py)} in one request")
        elif unknown:
            ctx.inconclusive(rule, name, unknown[:300], mod.loc(fn))
        else:
            ctx.proved(rule, name, mod.loc(fn), f"{len(table)} topologies")
    ctx.floor(rule, "helper x topology", n_ob, 15)



def rule_X13(ctx, rule: str = "X13") -> None:
    """a well-known type (package google.protobuf) is referenced through the bundled betterproto.lib package from every
    package except google.protobuf itself: on each path of get_type_reference that leaves the referenced package
    google.protobuf as it is (no redirection to betterproto.lib), what lets it do so is a test that the *whole* current package
    equals google.protobuf - not a test on a prefix of it (google.protobuf.compiler is another package: a relative import from
    there reaches an empty intermediate module, or a user-generated copy) and not a test on something else"""
    mod = ctx.repo.mod(M_IMPORTING)
    fn = mod.func("get_type_reference")
    ctx.analysed("get_type_reference")
    paths = Interp(mod, fork_ifexp=True).run(fn)
    ctx.count(len(paths))
    exact = {"(package.split('.') == ['google', 'protobuf'])", "(['google', 'protobuf'] == package.split('.'))", "(package == 'google.protobuf')", "('google.protobuf' == package)"}
    bad = None
    unknown = None
    n_kept = n_redirected = 0
    for p in paths:
        if p.outcome != "return" or p.value is None:
            continue
        _nt = lambda t_: t_.replace("('google', 'protobuf')", "['google', 'protobuf']")     # a module-level constant list folds to a tuple
        atoms = {_nt(show(k)): v for k, v in p.valuation.items()}
        importing = [t for t, v in atoms.items() if "parse_source_type_name" in t and "['google', 'protobuf']" in t and "==" in t and v is True]
        if not importing:
            continue
        # constant against constant: `[] == ['google', 'protobuf']` cannot hold
        if any(t.startswith("([] == ['google'") and v is True for t, v in atoms.items()):
            continue
        if "'betterproto', 'lib'" in show(p.value) or any("'betterproto', 'lib'" in t for t in atoms):
            n_redirected += 1
            continue
        n_kept += 1
        cur = {}
        for k, v in p.valuation.items():
            t = _nt(show(k))
            if "parse_source_type_name" in t or not ("google" in t and "protobuf" in t):
                continue
            if not any(x == N("package") for x in walk_(k)):
                continue
            if k[0] == "op" and k[1] == "!=":
                t, v = t.replace(" != ", " == ", 1), not v
            cur[t] = v
        holds = [t for t, v in cur.items() if v is True]
        if not cur:
            unknown = unknown or f"a path keeps google.protobuf un-redirected without any recognisable test of the current package: {sorted(atoms)[:3]}"
        elif not holds:
            # all tests of the current package failed, yet no redirection
            bad = bad or ("none of the tests of the current package holds", sorted(cur))
        elif any(t not in exact for t in holds):
            bad = bad or ("the test that holds is not equality of the whole package", [t for t in holds if t not in exact])
    name = "get_type_reference:well-known-types-from-the-bundled-lib"
    if bad:
        why, ts = bad
        ctx.refuted(rule, name, ";".join(ts)[:100], mod.loc(fn),
                    f"a reference to a google.protobuf type is left relative (not redirected to betterproto.lib) on a path where {why}: {ts}. A package that merely starts with "
                    "google.protobuf (google.protobuf.compiler, the real plugin.proto) then imports the well-known types from its parent package, which holds none of them",
                    "package google.protobuf.compiler with a field of type google.protobuf.Struct")
    elif unknown:
        ctx.inconclusive(rule, name, unknown[:300], mod.loc(fn))
    elif not n_redirected:
        ctx.inconclusive(rule, name, "no path redirects google.protobuf to the bundled package", mod.loc(fn))
    else:
        ctx.proved(rule, name, mod.loc(fn), f"{n_redirected} redirected paths, {n_kept} paths inside google.protobuf itself")


def _module_constant_table(mod, name: str) -> bool:
    """`name` is bound once at module level and nothing in the module stores into it or calls a mutating method on it"""
    binds = [st for st in mod.tree.body if isinstance(st, (ast.Assign, ast.AnnAssign)) and any(isinstance(t, ast.Name) and t.id == name for t in (st.targets if isinstance(st, ast.Assign) else [st.target]))]
    if len(binds) != 1:
        return False
    for node in ast.walk(mod.tree):
        if isinstance(node, ast.Subscript) and isinstance(node.ctx, (ast.Store, ast.Del)) and isinstance(node.value, ast.Name) and node.value.id == name:
            return False
        if isinstance(node, ast.Call) and isinstance(node.func, ast.Attribute) and isinstance(node.func.value, ast.Name) and node.func.value.id == name and \
                node.func.attr in ("update", "setdefault", "pop", "popitem", "clear", "__setitem__"):
            return False
        if isinstance(node, ast.Global) and name in node.names:
            return False
    return True


def rule_X11(ctx, rule: str = "X11") -> None:
    """a reference is spelled for the file that uses it: the string (and the import line it registers) that get_type_reference
    produces is relative to one output package, so every value py_type / py_input_message_type / py_output_message_type return
    for a message or enum type comes from a get_type_reference call made with the package and the import set of the compiler's own
    output file - not from a table that outlives that file (a request-wide memo keyed by the proto type name hands the second
    package the first one's spelling and registers no import for it)"""
    from ..src import M_MODELS

    mod = ctx.repo.mod(M_MODELS)
    n_sites = 0
    for q in ("FieldCompiler.py_type", "ServiceMethodCompiler.py_input_message_type", "ServiceMethodCompiler.py_output_message_type"):
        fn = mod.func(q)
        ctx.analysed(q)
        paths = Interp(mod, fork_ifexp=True).run(fn)
        ctx.count(len(paths))
        bad = None
        unknown = None
        n = 0
        for p in paths:
            if p.outcome != "return" or p.value is None or p.value[0] == "c":
                continue
            n += 1
            calls = [t for t in walk(p.value) if t[0] == "call" and dotted(t[1]).split(".")[-1] == "get_type_reference"]
            if calls:
                for c in calls:
                    kw = dict((k, v) for k, v in c[3] if k)
                    pk, im = kw.get("package"), kw.get("imports")
                    if pk is None or im is None or show(pk) != "self.output_file.package" or not show(im).startswith("self.output_file.imports"):
                        bad = bad or (p, f"get_type_reference is given package={show(pk) if pk else None}, imports={show(im) if im else None}: not the package and import set of the file "
                                         "this compiler writes into")
                continue
            reads = [t for t in walk(p.value) if t[0] == "sub" or (t[0] == "call" and t[1][0] == "a" and t[1][2] in ("get", "setdefault"))]
            if reads:
                tab = reads[0][1] if reads[0][0] == "sub" else reads[0][1][1]
                root = show(tab)
                if root.startswith("self.output_file.") or (root.startswith("self._") and root.count(".") == 1):
                    continue    # a memo that lives and dies with the file (or the field) it was spelled for
                if tab[0] in ("dictd", "c") or tab[0] == "n" and _module_constant_table(mod, tab[1]):
                    n -= 1
                    continue    # a module-level table nothing writes into: the scalar spellings, not a memo of references
                bad = bad or (p, f"the reference is read from {root}[...] and no get_type_reference call is made on this path: that table is shared by every output package of the "
                                 "request while the spelling (and the import line get_type_reference registers) is relative to one package")
            else:
                unknown = unknown or p
        name = f"{q}:reference-spelled-for-own-file"
        if bad:
            ctx.refuted(rule, name, show(bad[0].value)[:60], mod.loc(fn), f"{q}: on {bad[0].val_text()[-160:]}: {bad[1]}",
                        "one request where a.x.Holder and b.x.Holder both have a field of type a.y.Target")
        elif unknown or not n:
            ctx.inconclusive(rule, name, f"return value {show(unknown.value)[:80] if unknown else None} is neither a get_type_reference call nor a table read", mod.loc(fn))
        else:
            n_sites += 1
            ctx.proved(rule, name, mod.loc(fn), f"{n} non-constant returning paths, each through get_type_reference(package=self.output_file.package, imports=self.output_file.imports_*)")
    ctx.floor(rule, "reference sites", n_sites, 3)


def _name_keyed_tables(tree: ast.AST):
    """(function, node) where a module-level dict is read or filled under a key built from the bare `__name__` / `__qualname__` of a
    class: classes of the same name in different packages (a.y.Target, b.y.Target) collide in such a table"""
    mod_dicts = {t.id for st in tree.body if isinstance(st, (ast.Assign, ast.AnnAssign)) and getattr(st, "value", None) is not None
                 and (isinstance(st.value, ast.Dict) or (isinstance(st.value, ast.Call) and ast.unparse(st.value.func) in ("dict", "defaultdict", "WeakValueDictionary", "weakref.WeakValueDictionary")))
                 for t in (st.targets if isinstance(st, ast.Assign) else [st.target]) if isinstance(t, ast.Name)}
    out = []
    for fn in ast.walk(tree):
        if not isinstance(fn, (ast.FunctionDef, ast.AsyncFunctionDef)):
            continue
        named = {a.targets[0].id for a in ast.walk(fn) if isinstance(a, ast.Assign) and len(a.targets) == 1 and isinstance(a.targets[0], ast.Name)
                 and any(isinstance(x, ast.Attribute) and x.attr in ("__name__", "__qualname__") for x in ast.walk(a.value))}

        def by_name(e: ast.AST) -> bool:
            return any(isinstance(x, ast.Attribute) and x.attr in ("__name__", "__qualname__") for x in ast.walk(e)) or (isinstance(e, ast.Name) and e.id in named)

        for n in ast.walk(fn):
            if isinstance(n, ast.Subscript) and isinstance(n.value, ast.Name) and n.value.id in mod_dicts and by_name(n.slice):
                out.append((fn.name, n))
            elif isinstance(n, ast.Call) and isinstance(n.func, ast.Attribute) and n.func.attr in ("get", "setdefault", "pop") and isinstance(n.func.value, ast.Name) \
                    and n.func.value.id in mod_dicts and n.args and by_name(n.args[0]):
                out.append((fn.name, n))
    return out


def rule_X12(ctx, rule: str = "X12") -> None:
    """the class a reference resolves to is never found through a process-wide table keyed by a class's bare name: two packages
    may both define `Target`, and whatever is cached for one (the synthetic Entry message of a map field) would be handed to the
    other - a map in b.x then decodes its values into a.y.Target"""
    import pathlib
    from ..src import M_INIT, Module
    ctl = pathlib.Path(__file__).resolve().parent.parent / "controls" / "name_keyed_class_cache.py"
    cm = Module("controls/name_keyed_class_cache.py", ctl)
    flagged = {f for f, _ in _name_keyed_tables(cm.tree)}
    if flagged != {"entry_class_lossy"}:
        raise AnalysisError(f"X12 positive control: expected exactly `entry_class_lossy` to be flagged, got {sorted(flagged)}")
    mod = ctx.repo.mod(M_INIT)
    hits = _name_keyed_tables(mod.tree)
    ctx.count(len([n for n in ast.walk(mod.tree) if isinstance(n, (ast.FunctionDef, ast.AsyncFunctionDef))]))
    if hits:
        fname, node = hits[0]
        ctx.refuted(rule, "runtime:no-class-table-keyed-by-bare-name", f"{fname}:{ast.unparse(node)[:50]}", mod.loc(node),
                    f"{fname} looks classes up in a module-level table under a key built from `__name__` (`{ast.unparse(node)[:80]}`): classes with the same name in different packages share "
                    "the entry, so the second package's map field gets the Entry class - and through it the value class - of the first", "a.x.Holder and b.x.Holder with map<string, Target> over a.y.Target / b.y.Target")
    else:
        ctx.proved(rule, "runtime:no-class-table-keyed-by-bare-name", mod.rel, "no module-level table is keyed by a class's bare name")


def run(ctx) -> None:
    for name, fn in (("X10", rule_X10), ("X9", rule_X9), ("X1", template.rule_X1), ("X2", rule_X2), ("X3", rule_X3), ("X4", rule_X4), ("X5", rule_X5), ("X6", rule_X6), ("X7", rule_X7), ("X8", rule_X8), ("X11", rule_X11), ("X12", rule_X12), ("X13", rule_X13)):
        ctx.rules_run.append(name)
        fn(ctx)
    from .c03 import rule_P7, rule_P13
    ctx.rules_run.append("P13")
    rule_P13(ctx)    # a nested type is defined under the name its references derive
    ctx.rules_run.append("P7")
    rule_P7(ctx)     # a generated package module is never replaced by an empty __init__.py listed next to it: references into an ancestor package stay resolvable
    ctx.notes.append("NOT DECIDED: alias collisions, circular import behaviour; relative-import arithmetic is decided on the X10 table of topologies only")
