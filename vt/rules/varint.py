"""Shared varint rules: L4 (C09), N1-N3 (C16), negative widening for W1 (C02), W4."""
from __future__ import annotations

import ast
import math
from typing import Any, Dict, List, Optional, Tuple

from ..absint import Interp, Path
from ..cfg import CFG, normal_edge, own_nodes
from ..src import AnalysisError, M_INIT, fold, _Unfoldable
from ..sym import C, N, OP, Sym, dotted, show, simplify, subst, walk, from_ast

SPEC_MIN = -(1 << 63)
SPEC_MOD = 1 << 64
SPEC_GROUP = 7
SPEC_MAXLEN = 10  # ceil(64 / 7)


def varint_writer(mod):
    """the function that holds the varint emit loop: dump_varint, or - when dump_varint only hands its value to another
    function of the module and writes the result - that function (the two have swapped roles before)"""
    dv = mod.func("dump_varint")
    if any(isinstance(n, (ast.While, ast.For)) for n in ast.walk(dv)):
        return dv
    v = dv.args.args[0].arg
    cands = []
    for c in ast.walk(dv):
        if isinstance(c, ast.Call) and isinstance(c.func, ast.Name) and mod.has(c.func.id) and len(c.args) == 1 and isinstance(c.args[0], ast.Name) and c.args[0].id == v:
            h = mod.func(c.func.id)
            if any(isinstance(n, (ast.While, ast.For)) for n in ast.walk(h)):
                cands.append(h)
    return cands[0] if len(cands) == 1 else dv


def _threshold(paths: List[Path], param: str) -> Optional[Tuple[Any, str]]:
    """constant K of the guard `param < K` whose true branch raises; exception name"""
    for p in paths:
        if p.outcome != "raise":
            continue
        trues = [k for k, v in p.valuation.items() if v]
        if len(trues) > 1 and len(trues) == len(p.valuation) and all(k[0] == "op" and k[1] == "<" and k[2] == N(param) and k[3][0] == "c" and isinstance(k[3][1], int) for k in trues):
            # nested guards `param < a` and `param < b`: rejects below min(a, b)
            exc = dotted(p.value[1]) if p.value and p.value[0] == "call" else dotted(p.value) if p.value else ""
            return min(k[3][1] for k in trues), exc
        if len(trues) == 1 and len(p.valuation) == 1:
            k = trues[0]
            if k[0] == "op" and k[1] == "<" and k[2] == N(param) and k[3][0] == "c":
                exc = dotted(p.value[1]) if p.value and p.value[0] == "call" else dotted(p.value) if p.value else ""
                return k[3][1], exc
            # `param.bit_length() > n` (n < param.bit_length()): rejects |param| >= 2**n, i.e. negatives below -(2**n) + 1
            bl = ("call", ("a", N(param), "bit_length"), (), ())
            if k[0] == "op" and k[1] == "<" and k[3] == bl and k[2][0] == "c" and isinstance(k[2][1], int):
                exc = dotted(p.value[1]) if p.value and p.value[0] == "call" else dotted(p.value) if p.value else ""
                return -(1 << k[2][1]) + 1, exc
    return None


def varint_facts(ctx) -> Dict[str, Any]:
    """constants of dump_varint / size_varint / load_varint extracted from their summaries"""
    mod = ctx.repo.mod(M_INIT)
    facts: Dict[str, Any] = {}
    dv = varint_writer(mod)
    sv = mod.func("size_varint")
    lv = mod.func("load_varint")
    ctx.analysed("dump_varint", "size_varint", "load_varint", "encode_varint", "decode_varint")
    vparam = dv.args.args[0].arg
    sparam = sv.args.args[0].arg
    dpaths = Interp(mod).run(dv)
    spaths = Interp(mod).run(sv)
    ctx.count(len(dpaths) + len(spaths))
    facts["dump_threshold"] = _threshold(dpaths, vparam)
    facts["size_threshold"] = _threshold(spaths, sparam)

    # negative branch of dump: value += M under (value < 0)
    neg_atom_d = ("op", "<", N(vparam), C(0))
    widen = set()
    for p in dpaths:
        if p.valuation.get(neg_atom_d) is True and p.outcome != "raise":
            for e in p.events:
                if e.kind == "aug" and e.data[0] == N(vparam) and e.data[1] == "+" and e.data[2][0] == "c" and not e.loops:
                    widen.add(e.data[2][1])
                if e.kind == "store":
                    pass
            # also the form value + M written as an expression (returned by a helper, assigned back): any term of the path
            for e in p.events:
                terms = [e.data] if isinstance(e.data, tuple) and e.data and isinstance(e.data[0], str) else [x for x in (e.data if isinstance(e.data, tuple) else ()) if isinstance(x, tuple)]
                for t0 in terms:
                    for t in walk(t0):
                        if t[0] == "op" and t[1] == "+" and len(t) == 4 and N(vparam) in t[2:]:
                            other = t[3] if t[2] == N(vparam) else t[2]
                            if other[0] == "c" and isinstance(other[1], int) and other[1] >= 1 << 16:
                                widen.add(other[1])
    facts["dump_widen"] = sorted(widen)

    # emit loop constants of dump: masks, shifts, continuation bits
    masks, shifts, conts = set(), set(), set()
    for n in ast.walk(dv):
        if isinstance(n, ast.BinOp) and isinstance(n.op, ast.BitAnd):
            for side in (n.left, n.right):
                try:
                    masks.add(fold(side, mod.consts))
                except _Unfoldable:
                    pass
        if isinstance(n, ast.AugAssign) and isinstance(n.op, ast.RShift) or isinstance(n, ast.BinOp) and isinstance(n.op, ast.RShift):
            side = n.value if isinstance(n, ast.AugAssign) else n.right
            try:
                shifts.add(fold(side, mod.consts))
            except _Unfoldable:
                pass
        if isinstance(n, ast.BinOp) and isinstance(n.op, ast.BitOr):
            for side in (n.left, n.right):
                try:
                    conts.add(fold(side, mod.consts))
                except _Unfoldable:
                    pass
        if isinstance(n, ast.AugAssign) and isinstance(n.op, ast.BitOr):
            # groups[-1] |= 0x80: the flag set in place on the group written before
            try:
                conts.add(fold(n.value, mod.consts))
            except _Unfoldable:
                pass
    facts["dump_masks"], facts["dump_shifts"], facts["dump_conts"] = sorted(masks), sorted(shifts), sorted(conts)

    # size_varint: returned constants per branch and divisor of the positive branch
    neg_atom_s = ("op", "<", N(sparam), C(0))
    zero_atom_s = ("op", "==", N(sparam), C(0))
    facts["size_neg"] = sorted({p.value[1] for p in spaths if p.valuation.get(neg_atom_s) is True and p.outcome == "return" and p.value and p.value[0] == "c"})
    # a negative branch that is an expression: evaluated over the accepted negative range [-2**63, -1]
    from ..numeric import interval as _interval
    for p in spaths:
        neg = p.valuation.get(neg_atom_s) is True or p.valuation.get(("op", "<", N(sparam), C(0))) is True or p.valuation.get(("op", "<", C(-1), N(sparam))) is False
        if neg and p.outcome == "return" and p.value and p.value[0] != "c":
            iv = _interval(p.value, lambda t: (SPEC_MIN, -1) if t == N(sparam) else None)
            if iv[0] == iv[1] and iv[0] not in (float("inf"), float("-inf")):
                facts["size_neg"] = sorted(set(facts["size_neg"]) | {int(iv[0])})
            else:
                facts["size_neg"] = sorted(set(facts["size_neg"]) | {f"[{iv[0]},{iv[1]}]"}, key=str)
    facts["size_zero"] = sorted({p.value[1] for p in spaths if p.valuation.get(zero_atom_s) is True and p.outcome == "return" and p.value and p.value[0] == "c"})
    pos = [p for p in spaths if p.outcome == "return" and p.value and p.value[0] != "c" and p.valuation.get(neg_atom_s) is not True]
    # `<size of the positive branch> or k`: the bit length is 0 exactly for the value 0, which then takes k bytes
    pos_values = []
    for p in pos:
        v = p.value
        if v[0] == "op" and v[1] == "or" and len(v) == 4 and v[3][0] == "c" and ("a", N(sparam), "bit_length") in list(walk(v[2])):
            facts["size_zero"] = sorted(set(facts["size_zero"]) | {v[3][1]})
            v = v[2]
        pos_values.append(v)
    facts["size_pos_terms"] = [show(v) for v in pos_values]
    divs = set()
    for v in pos_values:
        for t in walk(v):
            if t[0] == "op" and t[1] in ("/", "//") and t[3][0] == "c":
                divs.add(t[3][1])
    facts["size_divisors"] = sorted(divs)
    facts["size_pos_shape"] = None
    if len(pos) == 1:
        v = pos_values[0]
        bl = ("call", ("a", N(sparam), "bit_length"), (), ())
        g = facts["size_divisors"][0] if len(facts["size_divisors"]) == 1 else None
        if g is not None:
            shapes = {
                ("call", ("a", N("math"), "ceil"), (("op", "/", bl, C(g)),), ()): "ceil",
                ("op", "//", ("op", "+", bl, C(g - 1)), C(g)): "ceil",
                ("op", "neg", ("op", "//", ("op", "neg", bl), C(g))): "ceil",
            }
            facts["size_pos_shape"] = shapes.get(v)

    # load_varint
    lmasks, lconts = set(), set()
    for n in ast.walk(lv):
        if isinstance(n, ast.BinOp) and isinstance(n.op, ast.BitAnd):
            for side in (n.left, n.right):
                try:
                    lmasks.add(fold(side, mod.consts))
                except _Unfoldable:
                    pass
    facts["load_and_consts"] = sorted(lmasks)
    facts["load_loop"] = _load_loop(mod, lv)
    return facts


def _two_phase_loop(mod, lv, loops) -> Optional[Dict[str, Any]]:
    """the decoder written as two loops: one that reads bytes and appends the 7-bit group of each to a local list L (exactly one
    unconditional `L.append(..)` per iteration, after the read; `L = []` before), and one that folds
    `for shift, g in zip(count(a, s), L): result |= g << shift`.  The i-th group is shifted by a + s*i, as if shift were the
    induction variable of the reading loop; a guard `if c * len(L) >= K: raise` / `len(L) >= K` at the top of the reading loop
    limits the bytes read to ceil(K / c)."""
    read_lp = [l for l in loops if any(isinstance(c, ast.Call) and isinstance(c.func, ast.Attribute) and c.func.attr in ("read", "read1") for c in ast.walk(l))]
    fold_lp = [l for l in loops if l not in read_lp]
    if len(read_lp) != 1 or len(fold_lp) != 1 or any(l2 in list(ast.walk(l1)) for l1 in loops for l2 in loops if l1 is not l2):
        return None
    rl, fl = read_lp[0], fold_lp[0]
    if not (isinstance(fl, ast.For) and isinstance(fl.iter, ast.Call) and isinstance(fl.iter.func, ast.Name) and fl.iter.func.id == "zip" and len(fl.iter.args) == 2
            and isinstance(fl.iter.args[0], ast.Call) and ast.unparse(fl.iter.args[0].func) in ("count", "itertools.count") and isinstance(fl.iter.args[1], ast.Name)
            and isinstance(fl.target, ast.Tuple) and len(fl.target.elts) == 2 and all(isinstance(e, ast.Name) for e in fl.target.elts)):
        return None
    L = fl.iter.args[1].id
    try:
        cargs = [fold(a, mod.consts) for a in fl.iter.args[0].args]
    except _Unfoldable:
        return None
    start, step = (cargs + [0, 1][len(cargs):])[:2]
    var = fl.target.elts[0].id
    if not any(isinstance(n, ast.BinOp) and isinstance(n.op, ast.LShift) and isinstance(n.right, ast.Name) and n.right.id == var for n in ast.walk(fl)):
        return None
    appends = [n for n in ast.walk(lv) if isinstance(n, ast.Call) and isinstance(n.func, ast.Attribute) and isinstance(n.func.value, ast.Name) and n.func.value.id == L]
    top = [st for st in rl.body if isinstance(st, ast.Expr) and isinstance(st.value, ast.Call) and st.value in appends and st.value.func.attr == "append"]
    inits = [n for n in ast.walk(lv) if isinstance(n, (ast.Assign, ast.AnnAssign)) and isinstance(n.targets[0] if isinstance(n, ast.Assign) else n.target, ast.Name)
             and (n.targets[0] if isinstance(n, ast.Assign) else n.target).id == L]
    if len(appends) != 1 or len(top) != 1 or len(inits) != 1 or not (isinstance(inits[0].value, ast.List) and not inits[0].value.elts) or inits[0] in list(ast.walk(rl)):
        return None
    # nothing may skip the append once the byte was read: no continue in the reading loop
    if any(isinstance(n, ast.Continue) for n in ast.walk(rl)):
        return None
    guard = None
    for n in rl.body:
        if isinstance(n, ast.If) and any(isinstance(b, ast.Raise) for b in n.body) and rl.body.index(n) < rl.body.index(top[0]):
            t = simplify(from_ast(n.test, lambda nm: C(mod.consts[nm]) if nm in mod.consts and isinstance(mod.consts[nm], int) else None))
            ln = ("call", N("len"), (N(L),), ())
            if t[0] == "op" and t[1] == "not" and t[2][0] == "op" and t[2][1] == "<" and len(t[2]) == 4 and t[2][3][0] == "c" and isinstance(t[2][3][1], int):
                lhs, K = t[2][2], t[2][3][1]
                if lhs == ln:
                    guard = ("ge", K, n, "len")
                elif lhs[0] == "op" and lhs[1] == "*" and len(lhs) == 4 and ln in (lhs[2], lhs[3]):
                    c = lhs[3] if lhs[2] == ln else lhs[2]
                    if c[0] == "c" and isinstance(c[1], int) and c[1] > 0:
                        guard = ("ge", math.ceil(K / c[1]), n, "len")
    return {"shape": "count", "var": var, "start": start, "step": step, "loop": rl, "guard": guard, "fold_loop": fl}


def _load_loop(mod, lv) -> Dict[str, Any]:
    """induction variable, step, guard constant of the decode loop"""
    out: Dict[str, Any] = {"shape": None}
    loops = [n for n in ast.walk(lv) if isinstance(n, (ast.For, ast.While))]
    if len(loops) == 2:
        two = _two_phase_loop(mod, lv, loops)
        if two is not None:
            return two
    if len(loops) != 1:
        return out
    lp = loops[0]
    var = start = step = None
    if isinstance(lp, ast.For) and isinstance(lp.target, ast.Name) and isinstance(lp.iter, ast.Call):
        fn = ast.unparse(lp.iter.func)
        try:
            args = [fold(a, mod.consts) for a in lp.iter.args]
        except _Unfoldable:
            return out
        var = lp.target.id
        if fn in ("count", "itertools.count"):
            start = args[0] if args else 0
            step = args[1] if len(args) > 1 else 1
            out["shape"] = "count"
        elif fn == "range":
            if len(args) == 1:
                start, stop, step = 0, args[0], 1
            elif len(args) == 2:
                start, stop, step = args[0], args[1], 1
            else:
                start, stop, step = args
            out["shape"] = "range"
            out["stop"] = stop
    elif isinstance(lp, ast.While):
        # while True / while shift < K with `shift += step` in the body and `shift = start` before
        incs = [n for n in ast.walk(lp) if isinstance(n, ast.AugAssign) and isinstance(n.op, ast.Add) and isinstance(n.target, ast.Name)]
        cands = []
        for inc in incs:
            try:
                cands.append((inc.target.id, fold(inc.value, mod.consts)))
            except _Unfoldable:
                pass
        # the induction variable is the one used as shift amount
        for name, st in cands:
            for n in ast.walk(lp):
                if isinstance(n, ast.BinOp) and isinstance(n.op, ast.LShift) and isinstance(n.right, ast.Name) and n.right.id == name:
                    var, step = name, st
        if var is not None:
            for n in ast.walk(lv):
                if isinstance(n, ast.Assign) and len(n.targets) == 1 and isinstance(n.targets[0], ast.Name) and n.targets[0].id == var:
                    try:
                        start = fold(n.value, mod.consts)
                    except _Unfoldable:
                        pass
            out["shape"] = "while"
            if not (isinstance(lp.test, ast.Constant) and lp.test.value):
                t = simplify(from_ast(lp.test, lambda n: C(mod.consts[n]) if n in mod.consts and isinstance(mod.consts[n], int) else None))
                out["while_test"] = t
    out.update({"var": var, "start": start, "step": step, "loop": lp})
    if var is None:
        out["shape"] = None
        return out
    # guard: if <var> >= K: raise   (normalised: not (var < K)) inside the loop body
    guard = None
    for n in ast.walk(lp):
        if isinstance(n, ast.If) and any(isinstance(b, ast.Raise) for b in n.body):
            t = simplify(from_ast(n.test, lambda nm: C(mod.consts[nm]) if nm in mod.consts and isinstance(mod.consts[nm], int) else None))
            # accepted: not (var < K)  i.e. var >= K   |   K < var  i.e. var > K
            if t[0] == "op" and t[1] == "not" and t[2][0] == "op" and t[2][1] == "<" and len(t[2]) == 4 \
                    and t[2][2] == N(var) and t[2][3][0] == "c" and isinstance(t[2][3][1], int):
                guard = ("ge", t[2][3][1], n)
            elif t[0] == "op" and t[1] == "<" and len(t) == 4 and t[2][0] == "c" and isinstance(t[2][1], int) and t[3] == N(var):
                guard = ("ge", t[2][1] + 1, n)
    if guard is None:
        # guard on the number of bytes accumulated so far: `if len(raw) > K: raise` / `>= K`, checked before the read
        accs = {n.target.id for n in ast.walk(lp) if isinstance(n, ast.AugAssign) and isinstance(n.op, ast.Add) and isinstance(n.target, ast.Name)}
        for n in ast.walk(lp):
            if isinstance(n, ast.If) and any(isinstance(b, ast.Raise) for b in n.body):
                t = simplify(from_ast(n.test))
                for acc in accs:
                    ln = ("call", N("len"), (N(acc),), ())
                    if t[0] == "op" and t[1] == "<" and len(t) == 4 and t[2][0] == "c" and isinstance(t[2][1], int) and t[3] == ln:
                        guard = ("ge", t[2][1] + 1, n, "len")    # len(raw) > K
                    elif t[0] == "op" and t[1] == "not" and t[2][0] == "op" and t[2][1] == "<" and len(t[2]) == 4 and t[2][2] == ln \
                            and t[2][3][0] == "c" and isinstance(t[2][3][1], int):
                        guard = ("ge", t[2][3][1], n, "len")     # len(raw) >= K
    out["guard"] = guard
    return out


def accepted_bytes(loop: Dict[str, Any]) -> Optional[int]:
    """number of loop iterations that reach the read, from the induction facts"""
    if loop.get("shape") is None or loop.get("start") is None or not loop.get("step"):
        return None
    start, step = loop["start"], loop["step"]
    if step <= 0:
        return None
    bounds = []
    if loop.get("guard") and len(loop["guard"]) > 3 and loop["guard"][3] == "len":
        # the guard counts bytes already accumulated (start 0, step 1), checked before the read
        return max(0, loop["guard"][1])
    if loop.get("guard"):
        bounds.append(loop["guard"][1])
    if loop["shape"] == "range":
        bounds.append(loop["stop"])
    if loop["shape"] == "while" and "while_test" in loop:
        t = loop["while_test"]
        if t[0] == "op" and t[1] == "<" and t[2] == N(loop["var"]) and t[3][0] == "c":
            bounds.append(t[3][1])
        elif N(loop["var"]) in list(walk(t)):
            return None
        # a test about something else (e.g. `pos < end`) is another way out of the loop, not a bound on the shift
    if not bounds:
        return None
    k = min(bounds)
    return max(0, math.ceil((k - start) / step))


# ---------------------------------------------------------------------------
# rules


def _threshold_chain(fn: ast.AST):
    """`if value <= C: return k` ... `return K`  ->  ([(C, k), ...], K); `<` bounds are converted to `<=`"""
    v = fn.args.args[0].arg
    steps = []
    last = None
    for st in fn.body:
        if isinstance(st, ast.If) and isinstance(st.test, ast.Compare) and len(st.test.ops) == 1 and isinstance(st.test.left, ast.Name) and st.test.left.id == v \
                and len(st.body) == 1 and isinstance(st.body[0], ast.Return) and not st.orelse:
            try:
                c = ast.literal_eval(st.test.comparators[0])
                r = ast.literal_eval(st.body[0].value)
            except Exception:
                continue
            if isinstance(st.test.ops[0], ast.LtE) and isinstance(c, int) and c >= 0:
                steps.append((c, r))
            elif isinstance(st.test.ops[0], ast.Lt) and isinstance(c, int) and c > 0:
                steps.append((c - 1, r))
        elif isinstance(st, ast.Return) and st.value is not None:
            try:
                last = ast.literal_eval(st.value)
            except Exception:
                return None
    if len(steps) < 2 or last is None:
        return None
    return steps, last


def _shift_count_loop(fn: ast.AST, consts):
    """`size = S; while value > K: value >>= G; size += I` ... `return size`  ->  (S, strict-threshold K', G, I) where the loop
    runs while value > K' (a `>=` test is converted); None when the function has no such loop"""
    v = fn.args.args[0].arg

    def const(e):
        try:
            t = simplify(from_ast(e, lambda nm: C(consts[nm]) if nm in consts and isinstance(consts[nm], int) else None))
        except Exception:
            return None
        return t[1] if t[0] == "c" and isinstance(t[1], int) and not isinstance(t[1], bool) else None

    # `size = S; rest = value >> G; while rest: size += I; rest >>= G; return size`: the loop runs while value >> G is not zero,
    # i.e. (for value >= 0, the only values that reach it) while value > 2**G - 1 - the same count as the form below
    for lp in [n for n in ast.walk(fn) if isinstance(n, ast.While)]:
        t = lp.test
        r = t.id if isinstance(t, ast.Name) else (t.left.id if isinstance(t, ast.Compare) and len(t.ops) == 1 and isinstance(t.left, ast.Name) and isinstance(t.ops[0], (ast.Gt, ast.NotEq))
                                                    and const(t.comparators[0]) == 0 else None)
        if r is None or r == v or lp.orelse:
            continue
        pre = [a for a in ast.walk(fn) if isinstance(a, ast.Assign) and len(a.targets) == 1 and isinstance(a.targets[0], ast.Name) and a.targets[0].id == r]
        if len(pre) != 1 or not (isinstance(pre[0].value, ast.BinOp) and isinstance(pre[0].value.op, ast.RShift) and isinstance(pre[0].value.left, ast.Name)
                                 and pre[0].value.left.id == v and const(pre[0].value.right) is not None) or pre[0] in list(ast.walk(lp)):
            continue
        G0 = const(pre[0].value.right)
        G = ctr = inc = None
        extra = False
        for st in lp.body:
            if isinstance(st, ast.AugAssign) and isinstance(st.target, ast.Name) and st.target.id == r and isinstance(st.op, ast.RShift) and const(st.value) is not None:
                G = const(st.value)
            elif isinstance(st, ast.AugAssign) and isinstance(st.target, ast.Name) and st.target.id not in (v, r) and isinstance(st.op, ast.Add) and const(st.value) is not None:
                ctr, inc = st.target.id, const(st.value)
            else:
                extra = True
        if G is None or G != G0 or ctr is None or extra or G <= 0:
            continue
        # the value itself is not changed anywhere
        if any(isinstance(x, ast.Name) and x.id == v and isinstance(x.ctx, ast.Store) for x in ast.walk(fn)):
            continue
        inits = [const(a.value) for a in ast.walk(fn) if isinstance(a, ast.Assign) and len(a.targets) == 1 and isinstance(a.targets[0], ast.Name) and a.targets[0].id == ctr]
        rets = [x for x in ast.walk(fn) if isinstance(x, ast.Return) and isinstance(x.value, ast.Name) and x.value.id == ctr]
        if len(inits) != 1 or inits[0] is None or not rets:
            continue
        return inits[0], (1 << G) - 1, G, inc
    for lp in [n for n in ast.walk(fn) if isinstance(n, ast.While)]:
        t = lp.test
        if not (isinstance(t, ast.Compare) and len(t.ops) == 1):
            continue
        K = None
        if isinstance(t.left, ast.Name) and t.left.id == v:
            c = const(t.comparators[0])
            if c is not None and isinstance(t.ops[0], ast.Gt):
                K = c
            elif c is not None and isinstance(t.ops[0], ast.GtE):
                K = c - 1
        elif isinstance(t.comparators[0], ast.Name) and t.comparators[0].id == v:
            c = const(t.left)
            if c is not None and isinstance(t.ops[0], ast.Lt):
                K = c
            elif c is not None and isinstance(t.ops[0], ast.LtE):
                K = c - 1
        if K is None:
            continue
        G = None
        ctr = None
        inc = None
        extra = False
        for st in lp.body:
            if isinstance(st, ast.AugAssign) and isinstance(st.target, ast.Name) and st.target.id == v and isinstance(st.op, ast.RShift) and const(st.value) is not None:
                G = const(st.value)
            elif isinstance(st, ast.Assign) and len(st.targets) == 1 and isinstance(st.targets[0], ast.Name) and st.targets[0].id == v and isinstance(st.value, ast.BinOp) \
                    and isinstance(st.value.op, ast.RShift) and isinstance(st.value.left, ast.Name) and st.value.left.id == v and const(st.value.right) is not None:
                G = const(st.value.right)
            elif isinstance(st, ast.AugAssign) and isinstance(st.target, ast.Name) and st.target.id != v and isinstance(st.op, ast.Add) and const(st.value) is not None:
                ctr, inc = st.target.id, const(st.value)
            else:
                extra = True
        if G is None or ctr is None or extra or lp.orelse:
            continue
        inits = [const(a.value) for a in ast.walk(fn) if isinstance(a, ast.Assign) and len(a.targets) == 1 and isinstance(a.targets[0], ast.Name) and a.targets[0].id == ctr]
        rets = [r for r in ast.walk(fn) if isinstance(r, ast.Return) and isinstance(r.value, ast.Name) and r.value.id == ctr]
        if len(inits) != 1 or inits[0] is None or not rets:
            continue
        return inits[0], K, G, inc
    return None


def rule_L4(ctx, rule: str = "L4") -> None:
    mod = ctx.repo.mod(M_INIT)
    f = varint_facts(ctx)
    loc = mod.loc(mod.func("size_varint"))
    # same rejection threshold, equal to the spec's -2**63, same exception
    dt, st = f["dump_threshold"], f["size_threshold"]
    if dt is None or st is None:
        ctx.inconclusive(rule, "size_varint~dump_varint:threshold", f"rejection guard not recognised (dump={dt}, size={st})", loc)
    elif dt != st:
        ctx.refuted(rule, "size_varint~dump_varint:threshold", f"dump<{dt[0]}:{dt[1]} size<{st[0]}:{st[1]}", loc,
                    f"dump_varint rejects below {dt} but size_varint below {st}", "compare size_varint(v) and len(encode_varint(v)) at the two thresholds")
    elif dt[0] != SPEC_MIN:
        ctx.refuted(rule, "size_varint~dump_varint:threshold", f"threshold={dt[0]}", loc,
                    f"both reject below {dt[0]}, the 64-bit two's complement minimum is {SPEC_MIN}", f"encode_varint({SPEC_MIN}) / encode_varint({SPEC_MIN - 1})")
    else:
        ctx.proved(rule, "size_varint~dump_varint:threshold", loc, f"both reject below {dt[0]} with {dt[1]}")
    # negative: widened by 2**64 -> ceil(64/group) bytes
    group = f["dump_shifts"][0] if len(f["dump_shifts"]) == 1 else None
    if group is None or not isinstance(group, int) or group <= 0:
        ctx.inconclusive(rule, "dump_varint:group-width", f"shift constants {f['dump_shifts']}", loc)
        return
    expected_neg = math.ceil(64 / group)
    if f["dump_widen"] != [SPEC_MOD]:
        if not f["dump_widen"]:
            ctx.inconclusive(rule, "dump_varint:negative-widening", "no `value += <const>` on the negative branch", loc)
        else:
            ctx.refuted(rule, "dump_varint:negative-widening", f"widen={f['dump_widen']}", loc,
                        f"negative values are widened by {f['dump_widen']}, two's complement needs 2**64", "encode_varint(-1)")
    else:
        ctx.proved(rule, "dump_varint:negative-widening", loc, "value += 2**64 under value < 0")
    if f["size_neg"] != [expected_neg]:
        ctx.refuted(rule, "size_varint:negative", f"returns={f['size_neg']}", loc,
                    f"size_varint returns {f['size_neg']} for negatives, the writer emits ceil(64/{group}) = {expected_neg} bytes", "size_varint(-1) vs len(encode_varint(-1))")
    else:
        ctx.proved(rule, "size_varint:negative", loc, f"{expected_neg} bytes")
    if f["size_zero"] and f["size_zero"] != [1]:
        ctx.refuted(rule, "size_varint:zero", f"returns={f['size_zero']}", loc, "zero is one byte on the wire", "size_varint(0)")
    else:
        ctx.proved(rule, "size_varint:zero", loc)
    # positive: ceil(bit_length / group) with the writer's group width
    if f["size_divisors"] and f["size_divisors"] != [group]:
        ctx.refuted(rule, "size_varint:group-width", f"divisor={f['size_divisors']} shift={group}", loc,
                    f"size_varint divides the bit length by {f['size_divisors']}, dump_varint shifts by {group}", "size_varint(1 << 7)")
    elif not f["size_divisors"] or f["size_pos_shape"] != "ceil":
        chain = _threshold_chain(mod.func("size_varint"))
        shl = _shift_count_loop(mod.func("size_varint"), mod.consts) if chain is None else None
        if shl is not None:
            # counting 7-bit groups by shifting: size = S + I * #{k >= 0 : value >> (G k) > K}.  It equals the number of bytes the
            # writer emits for every positive value exactly when G is the writer's group width, S = I = 1 and K = 2**G - 1
            S, K, G, I = shl
            if (S, K, G, I) == (1, (1 << group) - 1, group, 1):
                ctx.proved(rule, "size_varint:group-width", loc, f"shift loop: 1 + number of shifts by {G} while value > {hex(K)}")
            else:
                def model(x):
                    n = S
                    while x > K and n < 100:
                        x >>= G
                        n += I
                    return n
                wit = next((x for i in range(0, 10) for x in ((1 << (group * i)) - 1, 1 << (group * i), (1 << (group * i)) + 1, (1 << (group * i)) << 1)
                            if 0 < x < (1 << 64) and model(x) != max(1, math.ceil(x.bit_length() / group))), None) if G > 0 else 1
                if wit is None:
                    ctx.inconclusive(rule, "size_varint:positive", f"shift loop (start {S}, while value > {K}, >>= {G}, += {I}) differs from the canonical form but no differing value found", loc)
                else:
                    ctx.refuted(rule, "size_varint:positive", f"loop:>{hex(K)}>>{G}+{I}from{S}", loc,
                                f"size_varint counts groups with `while value > {hex(K)}: value >>= {G}; size += {I}` from {S}: for value {wit} it gives {model(wit) if G > 0 else '?'} but the writer emits "
                                f"{max(1, math.ceil(wit.bit_length() / group))} byte(s) (a group holds values up to {hex((1 << group) - 1)})", f"size_varint({wit}) vs len(encode_varint({wit}))")
        elif chain is None:
            ctx.inconclusive(rule, "size_varint:positive", f"positive branch not of the form ceil(bit_length/{group}): {f['size_pos_terms']}", loc)
        else:
            steps, last = chain
            bad = None
            for i, (bound, ret) in enumerate(steps, start=1):
                # `value <= bound` returns ret: values up to bound take ret bytes
                if ret != i or bound != (1 << (group * i)) - 1:
                    bad = bad or (i, bound, ret)
            if bad is None and (last != len(steps) + 1 or len(steps) != math.ceil(64 / group) - 1):
                bad = (len(steps) + 1, None, last)
            if bad:
                i, bound, ret = bad
                want = (1 << (group * i)) - 1
                wit = min(x for x in (bound, want) if x is not None) + 1 if bound is not None else (1 << 63)
                ctx.refuted(rule, "size_varint:positive", f"step{i}:<={bound}->{ret}", loc,
                            f"the threshold chain of size_varint says values up to {bound if bound is None else hex(bound)} take {ret} byte(s); a varint of {i} byte(s) holds values up to "
                            f"{hex(want)} (2**{group * i} - 1): sizes are wrong between the two bounds", f"size_varint({wit}) vs len(encode_varint({wit}))")
            else:
                ctx.proved(rule, "size_varint:group-width", loc, f"threshold chain with {len(steps)} steps at 2**({group}k) - 1")
    else:
        ctx.proved(rule, "size_varint:group-width", loc, f"ceil(bit_length / {group})")
    mask = (1 << group) - 1
    if mask not in f["dump_masks"] or any(m not in (mask,) for m in f["dump_masks"] if isinstance(m, int)):
        ctx.refuted(rule, "dump_varint:mask", f"masks={f['dump_masks']} shift={group}", loc,
                    f"payload mask {f['dump_masks']} does not match the shift width {group}", "encode_varint(300)")
    else:
        ctx.proved(rule, "dump_varint:mask", loc)


def rule_N1(ctx) -> None:
    """constants and guards agree between dump/size/load and with the spec"""
    rule_L4(ctx, "N1")
    rule_N1b(ctx, "N1")
    mod = ctx.repo.mod(M_INIT)
    f = varint_facts(ctx)
    loc = mod.loc(mod.func("load_varint"))
    group = f["dump_shifts"][0] if len(f["dump_shifts"]) == 1 else None
    if group is None:
        # no single constant shift found in the writer (groups addressed some other way): nothing is concluded from that
        ctx.inconclusive("N1", "dump_varint:group=7", f"shift constants of the writer: {f['dump_shifts']}", loc)
    elif group != SPEC_GROUP:
        ctx.refuted("N1", "dump_varint:group=7", f"group={group}", loc, f"base-128 varints carry 7 payload bits per byte, writer uses {group}", "encode_varint(128)")
    else:
        ctx.proved("N1", "dump_varint:group=7", loc)
    if (1 << SPEC_GROUP) not in f["dump_conts"]:
        ctx.refuted("N1", "dump_varint:continuation-bit", f"or-constants={f['dump_conts']}", loc, "continuation bit 0x80 not set by the writer", "encode_varint(128)")
    else:
        ctx.proved("N1", "dump_varint:continuation-bit", loc)
    lc = set(f["load_and_consts"])
    # the continuation bit may be tested without an `& 0x80` (b < 0x80, b > 0x7F): then the paths decide it
    if 0x7F in lc and not (lc - {0x7F, 0x80}) and continuation_decided(mod, mod.func("load_varint")):
        lc = {0x7F, 0x80}
    if not {0x7F, 0x80} <= lc or (lc - {0x7F, 0x80}):
        ctx.refuted("N1", "load_varint:mask/continuation", f"and-constants={sorted(lc)}", loc,
                    f"decoder masks with {sorted(lc)}; payload mask 0x7F and continuation 0x80 expected", "decode_varint(b'\\x80\\x01', 0)")
    else:
        ctx.proved("N1", "load_varint:mask/continuation", loc)
    lp = f["load_loop"]
    if lp.get("shape") is None:
        ctx.inconclusive("N1", "load_varint:shift-step", "decode loop induction variable not recognised", loc)
    elif lp["step"] != SPEC_GROUP or lp["start"] != 0:
        ctx.refuted("N1", "load_varint:shift-step", f"start={lp['start']} step={lp['step']}", loc,
                    "decoder shift must start at 0 and advance by 7", "decode_varint(b'\\x80\\x01', 0)")
    else:
        ctx.proved("N1", "load_varint:shift-step", loc)


def rule_N1b(ctx, rule: str = "N1") -> None:
    """the emit loop of dump_varint writes a continuation byte iff more than `group` bits remain (canonical minimal encoding)"""
    mod = ctx.repo.mod(M_INIT)
    dv = varint_writer(mod)
    loc = mod.loc(dv)
    f = varint_facts(ctx)
    group = f["dump_shifts"][0] if len(f["dump_shifts"]) == 1 else None
    loops = [n for n in ast.walk(dv) if isinstance(n, ast.While)]
    v = dv.args.args[0].arg
    name = "dump_varint:continuation-condition"
    if group is None or len(loops) != 1:
        ctx.inconclusive(rule, name, f"emit loop not recognised ({len(loops)} while loops, shifts {f['dump_shifts']})", loc)
        return
    lp = loops[0]
    t = simplify(from_ast(lp.test, lambda n: C(mod.consts[n]) if n in mod.consts and isinstance(mod.consts[n], int) else None))
    mask = (1 << group) - 1
    # the value may live in a local copy of the parameter (`x = value` before the loop, e.g. after a helper was inlined)
    if t[0] == "n" and t[1] != v:
        copies = [a for a in ast.walk(dv) if isinstance(a, ast.Assign) and len(a.targets) == 1 and isinstance(a.targets[0], ast.Name) and a.targets[0].id == t[1]
                  and isinstance(a.value, ast.Name) and a.value.id == v]
        if copies:
            v = t[1]
    if t == C(True):
        # `while True:` left from inside: the exit test `if not value: <emit last byte>; return / break` plays the part of the
        # loop condition; it is canonical when it follows the shift that removed the current group
        names = {v} | {a.targets[0].id for a in ast.walk(dv) if isinstance(a, ast.Assign) and len(a.targets) == 1 and isinstance(a.targets[0], ast.Name)
                       and isinstance(a.value, ast.Name) and a.value.id == v}
        exits = []
        for k_, st in enumerate(lp.body):
            if isinstance(st, ast.If) and not st.orelse and st.body and isinstance(st.body[-1], (ast.Return, ast.Break)):
                tt = simplify(from_ast(st.test, lambda n: C(mod.consts[n]) if n in mod.consts and isinstance(mod.consts[n], int) else None))
                if (tt[0] == "op" and tt[1] == "not" and tt[2][0] == "n" and tt[2][1] in names) or (tt[0] == "op" and tt[1] == "==" and tt[2][0] == "n" and tt[2][1] in names and tt[3] == C(0)):
                    exits.append((k_, tt[2][1]))
        if len(exits) == 1:
            k_, vn = exits[0]
            shifted_before = any(isinstance(x, ast.RShift) and vn in ast.unparse(b).split("=")[0] for b in lp.body[:k_] for x in ast.walk(b))
            emits_after = any(isinstance(x, ast.BinOp) and isinstance(x.op, ast.BitOr) for b in lp.body[k_ + 1:] for x in ast.walk(b))
            if shifted_before and emits_after:
                ctx.proved(rule, name, mod.loc(lp), "leaves the loop with the last byte when nothing remains after removing the current group")
            elif not shifted_before:
                ctx.refuted(rule, name, "zero-test-before-shift", mod.loc(lp),
                            "the emit loop stops when the value is zero before the current group was shifted out: a final zero byte / missing byte results", "encode_varint(1)")
            else:
                ctx.inconclusive(rule, name, "exit test found but the continuation byte is not emitted after it", mod.loc(lp))
        else:
            ctx.inconclusive(rule, name, f"`while True` emit loop with {len(exits)} zero-tests that leave it", mod.loc(lp))
    elif t == N(v):
        # `while value:` is canonical when the value tested is what remains after the current group was taken out
        g = CFG(dv, implicit_exc=False)
        shifts = {nd.id for nd in g.nodes if nd.kind == "stmt" and isinstance(nd.stmt, (ast.AugAssign, ast.Assign)) and
                  any(isinstance(x, ast.RShift) for x in ast.walk(nd.stmt)) and v in ast.unparse(nd.stmt).split("=")[0]}
        heads = [nd for nd in g.nodes_for(lp) if nd.kind == "loop"]
        dom = g.dominators(labels=normal_edge)
        pre = bool(heads) and all(any(sid in dom[h.id] for sid in shifts) for h in heads)
        body_shift = any(isinstance(x, ast.RShift) for b in lp.body for x in ast.walk(b))
        if pre and body_shift:
            ctx.proved(rule, name, mod.loc(lp), "continues while bits remain after removing the current group")
        else:
            ctx.refuted(rule, name, "truthy-before-shift", mod.loc(lp),
                        "`while value:` tests the value before the current group was shifted out: a final zero byte / missing byte results", "encode_varint(1)")
    elif t[0] == "op" and t[1] == "<" and len(t) == 4 and t[2][0] == "c" and t[3] == N(v):
        k = t[2][1]
        if k == mask:
            ctx.proved(rule, name, mod.loc(lp), f"value > {mask:#x}")
        else:
            ctx.refuted(rule, name, f"value>{k}", mod.loc(lp), f"the emit loop continues while value > {k:#x}; a continuation byte is needed exactly when value > {mask:#x}: "
                        f"values whose top group equals a boundary are written non-canonically (an extra zero byte) or lose a byte", f"encode_varint({max(k, mask)}) / encode_varint({min(k, mask) + 1})")
    elif t[0] == "op" and t[1] == "not" and t[2][0] == "op" and t[2][1] == "<" and t[2][2] == N(v) and t[2][3][0] == "c":
        k = t[2][3][1]
        if k == mask + 1:
            ctx.proved(rule, name, mod.loc(lp), f"value >= {mask + 1:#x}")
        else:
            ctx.refuted(rule, name, f"value>={k}", mod.loc(lp),
                        f"the emit loop continues while value >= {k:#x}; a continuation byte is needed exactly when value >= {mask + 1:#x}: e.g. {min(k, mask + 1)} "
                        f"is written as two bytes (0x{0x80 | (min(k, mask + 1) & mask):02x} 0x{min(k, mask + 1) >> group:02x}) instead of one, and size_varint disagrees",
                        f"encode_varint({min(k, mask + 1)})")
    else:
        ctx.inconclusive(rule, name, f"loop condition `{ast.unparse(lp.test)}` not in a recognised form", mod.loc(lp))


def _spec_varint(v: int) -> bytes:
    """the base-128 encoding of v as a 64-bit two's complement number (the protobuf encoding rules, written out here)"""
    if v < 0:
        v += 1 << 64
    out = bytearray()
    while True:
        b = v & 0x7F
        v >>= 7
        if v:
            out.append(b | 0x80)
        else:
            out.append(b)
            return bytes(out)


def rule_N8(ctx, rule: str = "N8") -> None:
    """the varint writer at the boundary values of every 7-bit group and of every fast path it may have: constant propagation
    (E2 with the value bound to a constant, loops executed on constants) must produce exactly the bytes the encoding rules give.
    Decides the listed values only - a range-restricted special case with a wrong constant shows up at its range's ends."""
    mod = ctx.repo.mod(M_INIT)
    w = varint_writer(mod)
    ctx.analysed(w.name)
    vparam = w.args.args[0].arg
    # boundary values: around every power of two, plus every integer constant the writer compares the value with
    vals = set()
    for k in range(0, 65):
        for d in (-1, 0, 1):
            for sgn in (1, -1):
                vals.add(sgn * (1 << k) + d)
    for n in ast.walk(w):
        if isinstance(n, ast.Compare):
            for e in [n.left] + n.comparators:
                try:
                    c = fold(e, mod.consts)
                except _Unfoldable:
                    continue
                if isinstance(c, int) and not isinstance(c, bool):
                    vals |= {c - 1, c, c + 1}
    vals = sorted(v for v in vals if -(1 << 63) <= v < (1 << 64))
    bad = None
    undecided = 0
    decided = 0
    for v in vals:
        try:
            paths = Interp(mod, bindings={N(vparam): v}, concrete_while=True, local_tables=True).run(w)
        except AnalysisError:
            undecided += 1
            continue
        ctx.count(len(paths))
        if len(paths) != 1 or paths[0].valuation:
            undecided += 1
            continue
        p = paths[0]
        if p.outcome == "raise":
            bad = bad or (v, "raises " + (dotted(p.value[1]) if p.value and p.value[0] == "call" else "?"))
            continue
        out = b""
        ok = True
        if p.value is not None and p.value[0] == "c" and isinstance(p.value[1], (bytes, bytearray)) and not any(
                e.kind == "call" and e.data[1][0] == "a" and e.data[1][2] == "write" for e in p.events):
            # the writer returns the bytes (a local sequence of groups tracked item by item)
            decided += 1
            want = _spec_varint(v)
            if bytes(p.value[1]) != want and bad is None:
                bad = (v, f"writes {bytes(p.value[1]).hex()}, the encoding is {want.hex()}")
            continue
        if any((e.kind == "aug" and e.data[0][0] != "n") or (e.kind == "store" and e.data[0][0] == "sub") for e in p.events):
            # an item changed in place after it was appended: the pieces seen at append time are not what is written
            undecided += 1
            continue
        for e in p.events:
            piece = None
            if e.kind == "call" and e.data[1][0] == "a" and e.data[1][2] == "write" and len(e.data[2]) == 1:
                piece = e.data[2][0]
                if not (piece[0] == "c" and isinstance(piece[1], (bytes, bytearray))):
                    ok = False
                    break
                out += bytes(piece[1])
            elif e.kind == "call" and e.data[1][0] == "a" and e.data[1][2] == "append" and len(e.data[2]) == 1 and (e.data[1][1][0] == "n" or (e.data[1][1][0] == "call" and dotted(e.data[1][1][1]) in ("bytearray", "list"))):
                piece = e.data[2][0]
                if not (piece[0] == "c" and isinstance(piece[1], int) and 0 <= piece[1] < 256):
                    ok = False
                    break
                out += bytes([piece[1]])
            elif e.kind == "yield":
                piece = e.data
                if not (piece is not None and piece[0] == "c" and isinstance(piece[1], int) and 0 <= piece[1] < 256):
                    ok = False
                    break
                out += bytes([piece[1]])
            elif e.kind == "aug" and e.data[1] == "+" and e.data[0][0] == "n" and e.data[2][0] == "c" and isinstance(e.data[2][1], (bytes, bytearray)):
                out += bytes(e.data[2][1])
        if not ok or not out:
            undecided += 1
            continue
        decided += 1
        want = _spec_varint(v)
        if out != want and bad is None:
            bad = (v, f"writes {out.hex()}, the encoding is {want.hex()}")
    name = f"{w.name}:boundary-values"
    if bad:
        ctx.refuted(rule, name, f"{bad[0]}", mod.loc(w), f"for the value {bad[0]} the varint writer {bad[1]} (64-bit two's complement, 7-bit groups, low group first)",
                    f"encode_varint({bad[0]})")
    elif decided < 100:
        ctx.inconclusive(rule, name, f"only {decided} of {len(vals)} boundary values propagate to constant bytes", mod.loc(w))
    else:
        ctx.proved(rule, name, mod.loc(w), f"{decided} boundary values ({undecided} not decided)")


def rule_N2(ctx, rule: str = "N2") -> None:
    """bounded decode: at most 10 bytes accepted, the bound test precedes the read"""
    mod = ctx.repo.mod(M_INIT)
    lv = mod.func("load_varint")
    loc = mod.loc(lv)
    f = varint_facts(ctx)
    lp = f["load_loop"]
    n = accepted_bytes(lp)
    if n is None:
        # an endless loop (count(..) / while True) none of whose tests looks at how many bytes were taken - not at the induction
        # variable, a counter, or the bytes collected so far - cannot bound the length: a continuation byte with an empty payload
        # (0x80) adds nothing to the decoded value, so no test of the value tells the 10th byte from the 11th
        loop = lp.get("loop")
        if loop is None:
            loops_ = [x for x in ast.walk(lv) if isinstance(x, (ast.For, ast.While))]
            loop = loops_[0] if len(loops_) == 1 else None
        endless = loop is not None and ((isinstance(loop, ast.While) and isinstance(loop.test, ast.Constant) and loop.test.value is True)
                                        or (isinstance(loop, ast.For) and isinstance(loop.iter, ast.Call) and ast.unparse(loop.iter.func) in ("count", "itertools.count")))
        if endless:
            counters = set()
            if isinstance(loop, ast.For):
                counters |= {x.id for x in ast.walk(loop.target) if isinstance(x, ast.Name)}
            for x in ast.walk(loop):
                if isinstance(x, ast.AugAssign) and isinstance(x.target, ast.Name) and isinstance(x.op, (ast.Add, ast.Sub)):
                    counters.add(x.target.id)        # counters and byte accumulators (raw += b)
                if isinstance(x, ast.Call) and isinstance(x.func, ast.Attribute) and x.func.attr in ("append", "extend") and isinstance(x.func.value, ast.Name):
                    counters.add(x.func.value.id)
            # what is computed from them (one step): `n = len(raw)`
            for x in ast.walk(loop):
                if isinstance(x, ast.Assign) and len(x.targets) == 1 and isinstance(x.targets[0], ast.Name) and any(isinstance(y, ast.Name) and y.id in counters for y in ast.walk(x.value)):
                    counters.add(x.targets[0].id)
            tests = [x.test for x in ast.walk(loop) if isinstance(x, (ast.If, ast.While, ast.IfExp, ast.Assert))]
            length_tests = [t for t in tests if any(isinstance(y, ast.Name) and y.id in counters for y in ast.walk(t))]
            # the decoded value itself is an accumulator too (result |= ..): a test of it is a test of the value, not of the length
            value_accs = {x.target.id for x in ast.walk(loop) if isinstance(x, ast.AugAssign) and isinstance(x.target, ast.Name) and isinstance(x.op, (ast.BitOr, ast.LShift))}
            length_tests = [t for t in length_tests if not {y.id for y in ast.walk(t) if isinstance(y, ast.Name)} & counters <= value_accs]
            if not length_tests:
                ctx.refuted(rule, "load_varint:bound", "unbounded", loc,
                            "the decode loop is endless and none of its tests looks at how many bytes were taken (only at the decoded value or the byte just read): a varint padded with "
                            "continuation bytes that carry no payload (0x80 ... 0x00) is accepted at any length, and more than 10 bytes are consumed for one varint",
                            "load_varint(BytesIO(b'\\x80' * 10 + b'\\x00'))")
                return
        ctx.inconclusive(rule, "load_varint:bound", "loop bound not derivable (no recognised guard on the induction variable)", loc)
        return
    if n != SPEC_MAXLEN:
        ctx.refuted(rule, "load_varint:bound", f"accepts={n}", loc,
                    f"decoder accepts up to {n} bytes per varint; 64-bit varints are at most {SPEC_MAXLEN}",
                    "decode_varint(b'\\x80' * %d + b'\\x01', 0)" % (SPEC_MAXLEN if n > SPEC_MAXLEN else n))
    else:
        ctx.proved(rule, "load_varint:bound", loc, f"{n} iterations reach the read")
    # the guard dominates the read inside the loop
    if lp.get("guard") and lp["shape"] in ("count", "while"):
        g = CFG(lv)
        reads = [nd for nd in g.nodes if nd.stmt is not None and nd.kind == "stmt" and _is_read(nd.stmt)]
        guards = {nd.id for nd in g.nodes_for(lp["guard"][2]) if nd.kind == "test"}
        heads = {nd.id for nd in g.nodes_for(lp["loop"]) if nd.kind == "loop"}
        ok = bool(reads) and all(all(g.must_pass(h, r.id, guards) for h in heads) for r in reads)
        if ok:
            ctx.proved(rule, "load_varint:bound-before-read", loc)
        else:
            ctx.refuted(rule, "load_varint:bound-before-read", "read reachable from loop head without passing the bound test", loc,
                        "an over-long varint consumes an extra byte before being rejected")
    elif lp["shape"] == "range":
        # leaving the loop by exhaustion must raise
        g = CFG(lv)
        after = [nd for nd in g.nodes_for(lp["loop"]) if nd.kind == "join"]
        ok = bool(after) and all(g.exit.id not in g.reachable([a.id], labels=normal_edge) for a in after)
        if ok:
            ctx.proved(rule, "load_varint:exhaustion-raises", loc)
        else:
            ctx.refuted(rule, "load_varint:exhaustion-raises", "loop exhaustion falls through to a normal return", loc,
                        "an over-long varint is silently truncated", "decode_varint(b'\\x80' * 11, 0)")


def _cont_clear(val: Dict[Sym, bool]) -> Optional[bool]:
    """did the path see a byte whose continuation bit (0x80) is clear?  None when no such test was decided"""
    res = None
    for k, v in val.items():
        t, want = k, v
        if t[0] == "op" and t[1] == "==" and len(t) == 4 and t[3][0] == "c" and t[3][1] in (0, 0x80) and t[2][0] == "op" and t[2][1] == "&" and C(0x80) in t[2][2:]:
            clear = (v if t[3][1] == 0 else not v)
            res = clear if res is None else (res or clear)
        elif t[0] == "op" and t[1] == "&" and C(0x80) in t[2:]:
            clear = not v
            res = clear if res is None else (res or clear)
        elif t[0] == "op" and t[1] == "<" and len(t) == 4 and t[3] == C(0x80) and t[2][0] != "c":
            clear = v                       # b < 0x80
            res = clear if res is None else (res or clear)
        elif t[0] == "op" and t[1] == "<" and len(t) == 4 and t[2] == C(0x7F) and t[3][0] != "c":
            clear = not v                   # 0x7F < b, i.e. b > 0x7F / b >= 0x80: set
            res = clear if res is None else (res or clear)
    return res


def _infinite_loop(e) -> bool:
    d = e.data
    if isinstance(d, tuple) and d and d[0] == "call" and dotted(d[1]).split(".")[-1] == "count":
        return True
    return isinstance(d, tuple) and len(d) == 2 and d[0] in ("while", "while!") and d[1] == C(True)


def returns_after_terminator(mod, fn):
    """(number of returning paths, a returning path that has not seen a byte with a clear continuation bit or None, paths)"""
    paths = Interp(mod, fork_while=True, fork_ifexp=True).run(fn)
    bad = None
    n_ret = 0
    for p in paths:
        if p.outcome == "raise":
            continue
        loops_ = [e for e in p.events if e.kind == "loop"]
        left_by = any(e.kind in ("break", "return") and e.loops for e in p.events) or any(e.kind == "break" for e in p.events)
        if loops_ and all(_infinite_loop(e) for e in loops_) and not left_by and p.outcome == "fall":
            continue          # falling out of an endless loop is not a path of the program
        n_ret += 1
        if _cont_clear(p.valuation) is not True:
            bad = bad or p
    return n_ret, bad, len(paths)


def continuation_decided(mod, fn) -> bool:
    """some path of fn decides a continuation-bit test (in any of the recognised spellings)"""
    try:
        paths = Interp(mod, fork_while=True, fork_ifexp=True).run(fn)
    except AnalysisError:
        return False
    return any(_cont_clear(p.valuation) is not None for p in paths)


def rule_N7(ctx, rule: str = "N7") -> None:
    """the varint readers as siblings.  load_varint reads from a stream; decode_varint either delegates to it or scans the
    buffer itself.  Whichever way: (a) at most 10 bytes are accepted - by both; (b) a normal return happens only after a byte
    with a clear continuation bit was seen (input that ends inside a varint raises EOFError); (c) decode_varint's new
    position is the old one plus the bytes consumed; (d) the raw bytes load_varint returns cover every byte that went into
    the value (also a first byte handed in by the caller)."""
    mod = ctx.repo.mod(M_INIT)
    lv = mod.func("load_varint")
    dv = mod.func("decode_varint")
    ctx.analysed("load_varint", "decode_varint")
    own_loop = any(isinstance(n, (ast.For, ast.While)) for n in ast.walk(dv))
    delegates = any(isinstance(c, ast.Call) and ast.unparse(c.func) == "load_varint" for c in ast.walk(dv))
    # (a) bound of decode_varint's own loop
    if own_loop:
        lp = _load_loop(mod, dv)
        n = accepted_bytes(lp)
        if n is None:
            ctx.inconclusive(rule, "decode_varint:bound", "loop bound not derivable (no recognised guard on the shift)", mod.loc(dv))
        elif n != SPEC_MAXLEN:
            ctx.refuted(rule, "decode_varint:bound", f"accepts={n}", mod.loc(dv),
                        f"decode_varint (packed elements, nested messages, map entries) accepts up to {n} bytes per varint while 64-bit varints take up to {SPEC_MAXLEN}: "
                        + ("a ten-byte element (any negative int32/int64/enum, large uint64) of a packed field is rejected" if n < SPEC_MAXLEN else "over-long input is accepted"),
                        "M(xs=[-1]) round trip for a packed repeated int32")
        else:
            ctx.proved(rule, "decode_varint:bound", mod.loc(dv), f"{n} iterations reach the read")
        if lp.get("step") not in (None, SPEC_GROUP) or lp.get("start") not in (None, 0):
            ctx.refuted(rule, "decode_varint:shift-step", f"start={lp.get('start')} step={lp.get('step')}", mod.loc(dv), "decoder shift must start at 0 and advance by 7")
        elif lp.get("step") == SPEC_GROUP:
            ctx.proved(rule, "decode_varint:shift-step", mod.loc(dv))
        masks = set()
        for nd in ast.walk(dv):
            if isinstance(nd, ast.BinOp) and isinstance(nd.op, ast.BitAnd):
                for side in (nd.left, nd.right):
                    try:
                        masks.add(fold(side, mod.consts))
                    except _Unfoldable:
                        pass
        if 0x7F in masks and not (masks - {0x7F, 0x80}) and continuation_decided(mod, dv):
            masks = {0x7F, 0x80}
        if masks == {0x7F, 0x80}:
            ctx.proved(rule, "decode_varint:mask/continuation", mod.loc(dv))
        else:
            ctx.refuted(rule, "decode_varint:mask/continuation", f"and-constants={sorted(masks)}", mod.loc(dv), f"decode_varint masks with {sorted(masks)}; payload mask 0x7F and continuation 0x80 expected")
    elif delegates:
        ctx.proved(rule, "decode_varint:bound", mod.loc(dv), "delegates to load_varint")
    else:
        ctx.inconclusive(rule, "decode_varint:bound", "neither a loop of its own nor a call of load_varint", mod.loc(dv))
    # (b) no normal return without a terminating byte
    for q, fn in (("load_varint", lv), ("decode_varint", dv)):
        if q == "decode_varint" and not own_loop:
            continue
        n_ret, bad, n_paths = returns_after_terminator(mod, fn)
        ctx.count(n_paths)
        name = f"{q}:returns-only-after-terminator"
        if not n_ret:
            ctx.inconclusive(rule, name, "no returning path", mod.loc(fn))
        elif bad is not None:
            ctx.refuted(rule, name, ";".join(f"{show(k)}={v}" for k, v in list(bad.valuation.items())[:4])[:120], mod.loc(fn),
                        f"{q} can return normally on a path that has not seen a byte with a clear continuation bit ({ {show(k): v for k, v in bad.valuation.items()} }): input that ends in the "
                        "middle of a varint yields a partial value instead of EOFError", "decode_varint(b'\\x80', 0) / M().parse(b'\\x08\\xac')")
        else:
            ctx.proved(rule, name, mod.loc(fn), f"{n_ret} returning paths")
    # (c) position of a self-scanning decode_varint
    if own_loop:
        pos = dv.args.args[1].arg
        buf = dv.args.args[0].arg
        loop = next(n for n in ast.walk(dv) if isinstance(n, (ast.For, ast.While)))
        reads = [n for st in loop.body for n in ast.walk(st) if isinstance(n, ast.Subscript) and isinstance(n.value, ast.Name) and n.value.id == buf and isinstance(n.ctx, ast.Load)]
        incs = [st for st in loop.body if isinstance(st, ast.AugAssign) and isinstance(st.target, ast.Name) and st.target.id == pos and isinstance(st.op, ast.Add)
                and isinstance(st.value, ast.Constant) and st.value.value == 1]
        incs_all = [n for n in ast.walk(dv) if isinstance(n, (ast.AugAssign, ast.Assign)) and pos in {x.id for t in (n.targets if isinstance(n, ast.Assign) else [n.target]) for x in ast.walk(t) if isinstance(x, ast.Name)}]
        rets = [n for n in ast.walk(dv) if isinstance(n, ast.Return) and n.value is not None]
        ret_ok = bool(rets) and all(isinstance(r.value, ast.Tuple) and len(r.value.elts) == 2 and isinstance(r.value.elts[1], ast.Name) and r.value.elts[1].id == pos for r in rets)
        direct_reads = [n for st in loop.body if not isinstance(st, (ast.If, ast.For, ast.While, ast.Try)) for n in ast.walk(st)
                        if isinstance(n, ast.Subscript) and isinstance(n.value, ast.Name) and n.value.id == buf and isinstance(n.slice, ast.Name) and n.slice.id == pos]
        if len(reads) == 1 and len(direct_reads) == 1 and len(incs) == 1 and len(incs_all) == 1 and ret_ok:
            ctx.proved(rule, "decode_varint:position", mod.loc(dv), f"one {buf}[{pos}] read and one {pos} += 1 per iteration; returns {pos}")
        else:
            ctx.inconclusive(rule, "decode_varint:position", f"scan not of the form `b = {buf}[{pos}]; {pos} += 1` once per iteration with `return value, {pos}`", mod.loc(dv))
    # (d) raw covers the value
    first = lv.args.args[1].arg if len(lv.args.args) > 1 else None
    paths = Interp(mod, fork_ifexp=True, fork_while=True, replay_logs=True).run(lv)
    ctx.count(len(paths))
    missing = None
    recomputed = None
    n_ret = 0
    for p in paths:
        if p.outcome != "return" or p.value is None or p.value[0] != "tuple" or len(p.value[1]) != 2:
            continue
        n_ret += 1
        val, raw = p.value[1]

        def sources(t: Sym):
            out = set()
            for x in walk(t):
                if first and x == N(first):
                    out.add("first")
                if x[0] == "call" and dotted(x[1]).split(".")[-1] in ("read", "_read_exact", "read1"):
                    out.add("read")
            return out

        sv, sr = sources(val), sources(raw)
        arith = sorted({x[1] for x in walk(raw) if x[0] == "op" and x[1] in ("&", "|", "<<", ">>", "%", "//", "*", "-")})
        if arith and recomputed is None:
            recomputed = (show(raw), arith, next((dotted(x[1]) for x in walk(raw) if x[0] == "call" and any(y[0] == "op" and y[1] in arith for a in x[2] for y in walk(a))), None))
        # a truthiness decision on `first` that sends its byte into the value counts as a use of first
        if first and any(k == N(first) and v for k, v in p.valuation.items()) and any(x[0] == "sub" and x[1] == N(first) for x in walk(val)):
            sv.add("first")
        if not sv <= sr:
            missing = missing or (sorted(sv - sr), show(raw))
    # (e) a byte handed in by the caller is consumed whenever there is one - whatever its value (0x00 is the varint 0)
    if first:
        skipped = None
        n_first = 0
        for p in paths:
            if p.outcome != "return" or p.value is None or p.value[0] != "tuple" or len(p.value[1]) != 2:
                continue
            if p.valuation.get(N(first)) is not True and p.valuation.get(("op", "is", N(first), C(None))) is not False:
                continue
            n_first += 1
            val = p.value[1][0]
            if not any(x == N(first) for x in walk(val)):
                skipped = skipped or {show(k): v for k, v in p.valuation.items()}
        if skipped:
            ctx.refuted(rule, "load_varint:first-byte-consumed", "value-dependent", mod.loc(lv),
                        f"on the path {skipped} a first byte was handed in but the value is built without it: whether the supplied byte is used depends on its value "
                        "(a falsy 0x00, the complete varint 0, is taken for 'nothing supplied' and the next varint of the stream is decoded instead)",
                        "load_varint(BytesIO(b'\\x96\\x01'), b'\\x00')")
        elif n_first:
            ctx.proved(rule, "load_varint:first-byte-consumed", mod.loc(lv), f"{n_first} paths with a supplied first byte")
        elif n_ret and all(any(x == N(first) for x in walk(p.value[1][0])) for p in paths
                           if p.outcome == "return" and p.value is not None and p.value[0] == "tuple" and len(p.value[1]) == 2):
            ctx.proved(rule, "load_varint:first-byte-consumed", mod.loc(lv), "the supplied byte is part of every returned value (`first or read`)")
        else:
            ctx.inconclusive(rule, "load_varint:first-byte-consumed", "no returning path decides whether a first byte was supplied", mod.loc(lv))
    # (f) raw is the bytes that were read, not something computed from the decoded number: several byte strings decode to the
    # same value (over-long forms such as 80 00 for 0) and the raw form is what unknown fields are re-emitted from
    if n_ret:
        if recomputed:
            ctx.refuted(rule, "load_varint:raw-is-the-bytes-read", f"arithmetic {recomputed[1]}", mod.loc(lv),
                        f"the raw bytes returned are {recomputed[0][:100]}: they are computed from the decoded number (operators {recomputed[1]}"
                        + (f" inside {recomputed[2]}(...)" if recomputed[2] else "") + ") instead of being the bytes consumed; a varint in a non-minimal form (b'\\x80\\x00' is 0, "
                        "a ten-byte negative int32) is returned - and an unknown field re-emitted - as different bytes than were on the wire", "load_varint(BytesIO(b'\\x81\\x00'))")
        else:
            ctx.proved(rule, "load_varint:raw-is-the-bytes-read", mod.loc(lv), f"{n_ret} returning paths; raw is built from the read results"
                       + (f" and `{first}`" if first else "") + " by concatenation only")
    # (g) "a first byte was handed in" is not decided by the truth of something that can be falsy when it was: callers that
    # pass the byte as an int (first[0]) pass 0 for the byte 0x00, a complete varint (and, as a tag, field number 0)
    if first:
        by_truth = any(k == N(first) for p in paths for k in p.valuation)
        int_args = []
        for q_, f_ in mod.functions():
            for c_ in ast.walk(f_):
                if isinstance(c_, ast.Call) and isinstance(c_.func, ast.Name) and c_.func.id == "load_varint":
                    a_ = c_.args[1] if len(c_.args) > 1 else next((k_.value for k_ in c_.keywords if k_.arg == first), None)
                    if isinstance(a_, ast.Subscript) and isinstance(a_.slice, ast.Constant) and isinstance(a_.slice.value, int):
                        int_args.append((q_, c_, a_))
        if by_truth and int_args:
            q_, c_, a_ = int_args[0]
            ctx.refuted(rule, "load_varint:supplied-byte-recognised-whatever-its-value", ast.unparse(a_), mod.loc(c_),
                        f"{q_} hands the byte it already read to load_varint as the integer `{ast.unparse(a_)}`, and load_varint takes `{first}` for supplied only when it is truthy: the byte 0x00 "
                        "(integer 0) counts as 'nothing supplied', is dropped from the raw bytes, and the next byte is decoded instead - a tag 0x00 (field number 0) in front of a field is skipped "
                        "instead of rejected", "M().parse(b'\\x00\\x08\\x01')")
        else:
            ctx.proved(rule, "load_varint:supplied-byte-recognised-whatever-its-value", mod.loc(lv), "the byte is handed on as a non-empty bytes object (or tested against None)")
    if not n_ret:
        ctx.inconclusive(rule, "load_varint:raw-covers-value", "no path returning (value, raw)", mod.loc(lv))
    elif missing:
        ctx.refuted(rule, "load_varint:raw-covers-value", f"missing={missing[0]}", mod.loc(lv),
                    f"on some path the value is built from bytes of {missing[0]} that are not part of the returned raw bytes ({missing[1][:80]}): the raw form of a field whose tag needs "
                    "several bytes loses its first byte, so unknown fields numbered 16 and above are re-emitted with a corrupt tag", "an unknown field number >= 16")
    else:
        ctx.proved(rule, "load_varint:raw-covers-value", mod.loc(lv), f"{n_ret} returning paths")


def _is_read(st: ast.AST) -> bool:
    for n in own_nodes(st):
        if isinstance(n, ast.Call) and isinstance(n.func, ast.Attribute) and n.func.attr == "read":
            return True
    return False


def rule_N3(ctx) -> None:
    """EOF: the empty-read test with raise EOFError guards every use of the byte;
    decode_varint returns pos + consumed"""
    mod = ctx.repo.mod(M_INIT)
    lv = mod.func("load_varint")
    loc = mod.loc(lv)
    # on every path: a read that came back empty ends in EOFError, and a byte is only used (its value enters the result)
    # on paths that found it non-empty - however the emptiness test is spelled (if not b / while byte / len(b) < 1)
    # two iterations of the loop, every read a value of its own: a read at the end of the body is used by the next iteration
    paths = Interp(mod, fork_while=True, fork_ifexp=True, unroll=2, fresh_calls=["read", "read1"]).run(lv)
    ctx.count(len(paths))

    def is_read(t: Sym) -> bool:
        return t[0] == "call" and dotted(t[1]).split(".")[-1] in ("read", "read1", "_read_exact")

    n_reads = 0
    problem = None
    excs = set()
    for p in paths:
        reads = []
        for e in p.events:
            if e.kind == "call" and is_read(e.data) and e.data not in reads:
                reads.append(e.data)
        if not reads:
            continue
        n_reads += 1
        for R in reads:
            def has(t: Sym) -> bool:
                return any(x == R for x in walk(t))
            # emptiness decisions about this read: `first or R` operand by operand, R itself, len(R) comparisons
            empty = None
            or_terms = {t for k in p.valuation for t in walk(k) if t[0] == "op" and t[1] == "or" and R in t[2:]}
            for t in or_terms:
                vals = [p.valuation.get(x) for x in t[2:]]
                if any(v is True for v in vals):
                    empty = False
                elif all(v is False for v in vals):
                    empty = True
            if not or_terms and R in p.valuation:
                empty = not p.valuation[R]
            for k, v in p.valuation.items():
                if k[0] == "op" and k[1] in ("<", "==") and len(k) == 4 and any(x[0] == "call" and x[1] == N("len") and x[2] and has(x[2][0]) for x in k[2:]):
                    lhs_len = k[2][0] == "call"
                    e_ = v if lhs_len else not v
                    empty = e_ if empty is None else (empty or e_)
            # uses of the byte: it enters a computation decided on the path or the returned value
            used = any(has(k) and k != R and not (k[0] == "op" and k[1] == "or") and not (k[0] == "op" and k[1] in ("<", "==") and any(x[0] == "call" and x[1] == N("len") for x in k[2:]))
                       for k in p.valuation)
            if p.outcome == "return" and p.value is not None and p.value[0] == "tuple" and p.value[1] and has(p.value[1][0]):
                used = True
            if empty is True:
                if p.outcome != "raise":
                    problem = problem or ("empty-read-not-raised", f"a path on which {show(R)} came back empty ends in {p.outcome}")
                else:
                    excs.add(dotted(p.value[1]) if p.value is not None and p.value[0] == "call" else (show(p.value) if p.value is not None else ""))
            elif empty is None and used:
                problem = problem or ("unguarded-use", f"the byte read by {show(R)} is used on a path that never tested it for emptiness (a varint cut off after a continuation byte is completed "
                                                       "with zero bits instead of raising)")
    if not n_reads:
        raise AnalysisError("load_varint: no stream read found")
    if problem:
        ctx.refuted("N3", "load_varint:eof", problem[0], loc, f"load_varint: {problem[1]}", "decode_varint(b'\\x80', 0)")
    elif excs and not all("EOFError" in e for e in excs):
        ctx.refuted("N3", "load_varint:eof", f"raises={sorted(excs)}", loc,
                    f"premature end of input raises {sorted(excs)}, callers rely on EOFError", "decode_varint(b'\\x80', 0)")
    elif not excs:
        ctx.refuted("N3", "load_varint:eof", "no-eof-path", loc, "no path of load_varint raises when the stream ends", "decode_varint(b'\\x80', 0)")
    else:
        ctx.proved("N3", "load_varint:eof", loc, "an empty read raises EOFError before any use")
    # decode_varint: returns (value, pos + len(raw))
    dv = mod.func("decode_varint")
    if any(isinstance(n, (ast.For, ast.While)) for n in ast.walk(dv)) and not any(isinstance(c, ast.Call) and ast.unparse(c.func) == "load_varint" for c in ast.walk(dv)):
        rule_N7(ctx, "N3")      # a decode_varint that scans the buffer itself is judged as a reader of its own
        return
    paths = Interp(mod).run(dv)
    ctx.count(len(paths))
    good = False
    detail = ""
    for p in paths:
        if p.outcome == "return" and p.value is not None:
            v = p.value
            detail = show(v)
            if v[0] == "tuple" and len(v[1]) == 2:
                second = v[1][1]
                pos = dv.args.args[1].arg
                # pos + len(<raw of load_varint>)
                if second[0] == "op" and second[1] == "+" and N(pos) in second[2:]:
                    other = [x for x in second[2:] if x != N(pos)]
                    if len(other) == 1 and other[0][0] == "call" and other[0][1] == N("len"):
                        inner = other[0][2][0]
                        if inner[0] == "item" and inner[2] == 1 and inner[1][0] == "call" and dotted(inner[1][1]) == "load_varint":
                            good = True
                # or stream.tell()
                if second[0] == "call" and dotted(second[1]).endswith(".tell"):
                    good = True
    minimal = any(p.value is not None and any(x[0] == "call" and dotted(x[1]) == "size_varint" for x in walk(p.value)) for p in paths if p.outcome == "return")
    if good:
        ctx.proved("N3", "decode_varint:position", mod.loc(dv), detail)
    elif minimal:
        ctx.refuted("N3", "decode_varint:position", "advances-by-minimal-size", mod.loc(dv),
                    f"decode_varint returns {detail}: the position advances by the size of the *minimal* encoding of the value, not by the bytes consumed; "
                    "a legal non-minimal (zero-padded) varint desynchronises every following element", "M().parse(b'\\x0a\\x03\\x81\\x00\\x02')  # packed [1 (padded), 2]")
    else:
        ctx.inconclusive("N3", "decode_varint:position", f"new position not of the form pos + len(raw): {detail}", mod.loc(dv))
