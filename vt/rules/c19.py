"""C19 - name mapping is total and safe (I1). The retraction clause is not decided."""
from __future__ import annotations

import ast

from ..absint import Interp
from ..src import AnalysisError, M_CASING, M_NAMING
from ..sym import N, dotted, show

PROP = "C19"
TECHNIQUE = "dataflow: every pythonize_* result flows through the keyword/identifier guard; both guard branches exist (E2 summary of sanitize_name)"
EXPLANATION = (
    "Static guard check: the value returned by each pythonize_* function and by safe_snake_case is shown to flow through sanitize_name, "
    "and sanitize_name's summary is shown to contain the keyword branch (suffix '_') and the non-identifier branch (prefix '_') with "
    "tests keyword.iskeyword / str.isidentifier. This decides only the 'valid identifier, not a keyword' clause. The retraction clause "
    "(to_dict key maps back to its field; idempotence) is a property of regular-expression semantics over strings and is NOT decided "
    "(it is known by inspection to fail for names such as address_line_1 and x_y_z)."
)
RULE_TEXT = "obligation = (rule, function); evaluations = abstract paths; non-trivial = distinct naming functions"


def rule_I1(ctx) -> None:
    cas = ctx.repo.mod(M_CASING)
    nam = ctx.repo.mod(M_NAMING)
    sn = cas.func("sanitize_name")
    ctx.analysed("sanitize_name", "safe_snake_case")
    p0 = sn.args.args[0].arg
    paths = Interp(cas).run(sn)
    ctx.count(len(paths))
    kw_branch = ident_branch = passthrough = False
    for p in paths:
        v = p.value
        kw_atom = ("call", ("a", N("keyword"), "iskeyword"), (N(p0),), ())
        id_atom = ("call", ("a", N(p0), "isidentifier"), (), ())
        if p.valuation.get(kw_atom) is True and v is not None and v != N(p0) and show(v).replace(" ", "") in (f'f"{{{p0}}}_"', f"({p0}+'_')"):
            kw_branch = True
        if p.valuation.get(kw_atom) is False and p.valuation.get(id_atom) is False and v is not None and v != N(p0):
            ident_branch = True
        if p.valuation.get(kw_atom) is False and p.valuation.get(id_atom) is True and v == N(p0):
            passthrough = True
    if kw_branch and ident_branch and passthrough:
        ctx.proved("I1", "sanitize_name:both-guards", cas.loc(sn))
    else:
        missing = [n for n, ok in (("keyword -> suffix '_'", kw_branch), ("not str.isidentifier() -> prefix '_'", ident_branch), ("valid name unchanged", passthrough)) if not ok]
        ctx.refuted("I1", "sanitize_name:both-guards", ";".join(missing), cas.loc(sn),
                    f"sanitize_name lacks: {missing} - some proto identifiers map to names that are keywords or not identifiers (e.g. '' or a name starting with a digit)",
                    "pythonize_field_name('_') / pythonize_field_name('class')")
    ssc = cas.func("safe_snake_case")
    paths = Interp(cas).run(ssc)
    if all(p.value is not None and p.value[0] == "call" and dotted(p.value[1]) == "sanitize_name" for p in paths if p.outcome == "return"):
        ctx.proved("I1", "safe_snake_case:guarded", cas.loc(ssc))
    else:
        ctx.refuted("I1", "safe_snake_case:guarded", "unguarded", cas.loc(ssc), "safe_snake_case does not return sanitize_name(...)")
    n = 0
    for q, fn in nam.functions():
        if not q.startswith("pythonize_"):
            continue
        n += 1
        ctx.analysed(q)
        paths = Interp(nam).run(fn)
        ctx.count(len(paths))
        bad = []
        for p in paths:
            if p.outcome != "return" or p.value is None:
                continue
            v = p.value
            if not (v[0] == "call" and dotted(v[1]).split(".")[-1] in ("sanitize_name", "safe_snake_case")):
                bad.append(show(v))
        if bad:
            ctx.refuted("I1", f"{q}:guarded", "unguarded", nam.loc(fn),
                        f"{q} returns {bad[0]} without passing it through sanitize_name: a proto name whose cased form is a Python keyword (None, True, False for class names) becomes `class None`",
                        f"{q}('none')" if "class" in q else f"{q}('class')")
        else:
            ctx.proved("I1", f"{q}:guarded", nam.loc(fn))
    ctx.floor("I1", "pythonize_* functions", n, 4)


def run(ctx) -> None:
    ctx.rules_run.append("I1")
    rule_I1(ctx)
    from . import jsonrules
    ctx.rules_run += ["J4", "K2"]
    jsonrules.rule_J4(ctx)      # from_dict maps every key through safe_snake_case (the only decided part of the retraction clause)
    jsonrules.rule_K2(ctx)
    ctx.notes.append("NOT DECIDED: safe_snake_case(camel_case(f)) == f and idempotence (regular-expression semantics; known counter-examples address_line_1, x_y_z)")
