"""C19 - name mapping is total and safe (I1, I2); emitted keys are found again through the per-class key table (I3)."""
from __future__ import annotations

import ast

from ..absint import Interp
from ..src import AnalysisError, M_CASING, M_NAMING
from typing import List
from ..sym import A, N, dotted, show

PROP = "C19"
TECHNIQUE = "dataflow through the keyword/identifier guard (I1); E2 path conditions of enum-member shortening (I2); structural agreement of emitted-key expression, key table and lookup (I3)"
EXPLANATION = (
    "Static guard and agreement checks. I1: the value returned by each pythonize_* function and by safe_snake_case flows through "
    "sanitize_name, whose summary contains the keyword branch (suffix '_') and the non-identifier branch (prefix '_'). I2: enum member "
    "names lose only an anchored ENUM_NAME_ prefix, never become empty, and members of one enum are kept distinct. I3: the key "
    "expression of to_dict/to_pydict equals the expression that fills the per-class key table, the table covers all fields and casings, "
    "from_dict/from_pydict consult it first and fall back to the plugin's proto-name function. Idempotence of the regex-based casing "
    "functions over all identifiers is not decided."
)
RULE_TEXT = "obligation = (rule, function); evaluations = abstract paths; non-trivial = distinct naming functions"


def rule_I1(ctx) -> None:
    cas = ctx.repo.mod(M_CASING)
    nam = ctx.repo.mod(M_NAMING)
    sn = cas.func("sanitize_name")
    ctx.analysed("sanitize_name", "safe_snake_case")
    p0 = sn.args.args[0].arg
    paths = Interp(cas, fork_ifexp=True).run(sn)
    ctx.count(len(paths))
    kw_branch = ident_branch = passthrough = False
    for p in paths:
        v = p.value
        kw_atom = ("call", ("a", N("keyword"), "iskeyword"), (N(p0),), ())
        id_atom = ("call", ("a", N(p0), "isidentifier"), (), ())
        if p.valuation.get(kw_atom) is True and v is not None and v != N(p0) and show(v).replace(" ", "") in (f'f"{{{p0}}}_"', f"({p0}+'_')"):
            kw_branch = True
        # every keyword is spelled like an identifier: the non-identifier branch may come before or after the keyword test
        if p.valuation.get(kw_atom) is not True and p.valuation.get(id_atom) is False and v is not None and v != N(p0):
            ident_branch = True
        if p.valuation.get(kw_atom) is False and p.valuation.get(id_atom) is True and v == N(p0):
            passthrough = True
    # the guard evaluated at distinguished names (every kind of keyword spelling, non-identifiers, ordinary names): the path each
    # name takes is selected with the analyser's evaluator; decisive when every name evaluates
    import keyword as _kw
    from .. import concrete
    probes = sorted(_kw.kwlist) + ["Class", "IMPORT", "none", "foo", "foo_", "_foo", "Foo", "x1", "1x", "", "a-b", "a b", "9"]
    module_consts = {k: v for k, v in cas.consts.items() if isinstance(v, (str, int, frozenset, tuple)) and type(v).__name__ not in ("SymName", "SymCall", "SymLambda")}
    # module-level names bound to an expression over the standard library's keyword tables (frozenset(keyword.kwlist)): evaluated
    # by the analyser's own evaluator
    from ..sym import from_ast as _from_ast
    for st_ in cas.tree.body:
        tg_ = st_.targets[0] if isinstance(st_, ast.Assign) and len(st_.targets) == 1 else (st_.target if isinstance(st_, ast.AnnAssign) and st_.value is not None else None)
        if isinstance(tg_, ast.Name) and tg_.id not in module_consts and "keyword" in ast.unparse(st_.value):
            try:
                module_consts[tg_.id] = concrete.ev(_from_ast(st_.value), dict(module_consts))
            except concrete.Unknown:
                pass
    bad_probe = unknown_probe = None
    for name_ in probes:
        env = dict(module_consts)
        env[p0] = name_
        sel = []
        try:
            for p in paths:
                if all(bool(concrete.ev(k, env)) == bool(v) for k, v in p.valuation.items() if k[0] != "raises"):
                    sel.append(p)
            if len(sel) != 1 or sel[0].outcome != "return" or sel[0].value is None:
                unknown_probe = unknown_probe or f"{name_!r}: {len(sel)} paths selected"
                continue
            got = concrete.ev(sel[0].value, env)
        except concrete.Unknown as e:
            unknown_probe = unknown_probe or f"{name_!r}: {e}"
            continue
        want = f"{name_}_" if _kw.iskeyword(name_) else name_ if name_.isidentifier() else f"_{name_}"
        ok_ = got == want if (_kw.iskeyword(name_) or name_.isidentifier()) else (isinstance(got, str) and got != name_ and (got.isidentifier() or not name_.replace("_", "").isalnum()) and not _kw.iskeyword(got))
        if not ok_:
            bad_probe = bad_probe or (name_, got, want)
    if unknown_probe is None:
        if bad_probe:
            name_, got, want = bad_probe
            ctx.refuted("I1", "sanitize_name:both-guards", f"{name_!r}->{got!r}", cas.loc(sn),
                        f"sanitize_name({name_!r}) is {got!r}" + (f": {name_!r} is a Python keyword and must become {want!r} - a class, field or enum member generated under that name does not compile" if _kw.iskeyword(name_)
                                                                 else f"; expected {want!r}: a valid, non-reserved name is left alone and anything else is made an identifier"),
                        f"message {name_} {{}} / enum member {name_}")
        else:
            ctx.proved("I1", "sanitize_name:both-guards", cas.loc(sn), f"{len(probes)} distinguished names (keywords in every capitalisation, non-identifiers, plain names)")
    elif kw_branch and ident_branch and passthrough:
        ctx.proved("I1", "sanitize_name:both-guards", cas.loc(sn))
    elif unknown_probe is not None and not any(isinstance(n_, ast.Attribute) and n_.attr == "iskeyword" for n_ in ast.walk(sn)):
        # neither evaluable at the distinguished names nor in the structural form the fall-back knows: no verdict
        ctx.inconclusive("I1", "sanitize_name:both-guards", f"sanitize_name does not evaluate at the distinguished names ({unknown_probe})", cas.loc(sn))
    else:
        missing = [n for n, ok in (("keyword -> suffix '_'", kw_branch), ("not str.isidentifier() -> prefix '_'", ident_branch), ("valid name unchanged", passthrough)) if not ok]
        ctx.refuted("I1", "sanitize_name:both-guards", ";".join(missing), cas.loc(sn),
                    f"sanitize_name lacks: {missing} - some proto identifiers map to names that are keywords or not identifiers (e.g. '' or a name starting with a digit)",
                    "pythonize_field_name('_') / pythonize_field_name('class')")
    ssc = cas.func("safe_snake_case")
    paths = Interp(cas).run(ssc)
    if all(p.value is not None and p.value[0] == "call" and dotted(p.value[1]) == "sanitize_name" for p in paths if p.outcome == "return"):
        ctx.proved("I1", "safe_snake_case:guarded", cas.loc(ssc))
    else:
        ctx.refuted("I1", "safe_snake_case:guarded", "unguarded", cas.loc(ssc), "safe_snake_case does not return sanitize_name(...)")
    n = 0
    # what each pythonize_* function returns: a call of the guard, of a sibling (judged by the sibling), or something else
    returns = {}
    for q, fn in nam.functions():
        if q.startswith("pythonize_"):
            ps = Interp(nam).run(fn)
            ctx.count(len(ps))
            returns[q] = [p.value for p in ps if p.outcome == "return" and p.value is not None]
    guarded = set()

    def is_guarded(v) -> bool:
        """a call of the guard (or of a function judged guarded); a list / generator of such calls, one per incoming name"""
        if v[0] == "call" and v[1] in (N("$listcomp"), N("$genexp")) and len(v[2]) >= 2:
            return is_guarded(v[2][0])
        return v[0] == "call" and (dotted(v[1]).split(".")[-1] in ("sanitize_name", "safe_snake_case") or dotted(v[1]) in guarded)

    for _ in range(len(returns) + 1):
        for q, vals in returns.items():
            if vals and all(is_guarded(v) for v in vals):
                guarded.add(q)
    for q, fn in nam.functions():
        if not q.startswith("pythonize_"):
            continue
        n += 1
        ctx.analysed(q)
        bad = []
        for v in returns[q]:
            if not is_guarded(v):
                bad.append(show(v))
        if bad:
            ctx.refuted("I1", f"{q}:guarded", "unguarded", nam.loc(fn),
                        f"{q} returns {bad[0]} without passing it through sanitize_name: a proto name whose cased form is a Python keyword (None, True, False for class names) becomes `class None`",
                        f"{q}('none')" if "class" in q else f"{q}('class')")
        else:
            ctx.proved("I1", f"{q}:guarded", nam.loc(fn))
    ctx.floor("I1", "pythonize_* functions", n, 4)


K6_PROBES = ["XOffset", "ABC", "a", "", "Ab", "aB", "_X", "1A", "XY_z", "URLPath", "x", "Zz"]


def rule_K6(ctx, rule: str = "K6") -> None:
    """casing.lowercase_first - the last step of camel_case, hence of every JSON key - changes the first character only, evaluated at
    distinguished strings (a run of leading capitals, a single letter, the empty string): a field whose first word is one letter
    (x_offset -> XOffset) keeps the capital of its second word (xOffset, which is protoc's json_name)"""
    from .. import concrete
    from ..sym import from_ast as _from_ast
    cas = ctx.repo.mod(M_CASING)
    name = "lowercase_first:first-character-only"
    if not cas.has("lowercase_first"):
        ctx.inconclusive(rule, name, "casing.lowercase_first not found", cas.rel)
        return
    fn = cas.func("lowercase_first")
    ctx.analysed("lowercase_first")
    p0 = fn.args.args[0].arg
    paths = Interp(cas, fork_ifexp=True).run(fn)
    ctx.count(len(paths))
    env0 = {k: v for k, v in cas.consts.items() if isinstance(v, (str, int))}
    for st_ in cas.tree.body:
        tg_ = st_.targets[0] if isinstance(st_, ast.Assign) and len(st_.targets) == 1 else (st_.target if isinstance(st_, ast.AnnAssign) and st_.value is not None else None)
        if isinstance(tg_, ast.Name) and tg_.id not in env0 and "re." in ast.unparse(st_.value):
            try:
                env0[tg_.id] = concrete.ev(_from_ast(st_.value), dict(env0))
            except concrete.Unknown:
                pass
    bad = unknown = None
    for text in K6_PROBES:
        env = dict(env0)
        env[p0] = text
        try:
            sel = [p for p in paths if all(bool(concrete.ev(k, env)) == bool(v) for k, v in p.valuation.items() if k[0] != "raises")]
            if len(sel) != 1 or sel[0].outcome != "return" or sel[0].value is None:
                unknown = unknown or f"{text!r}: {len(sel)} paths selected"
                continue
            got = concrete.ev(sel[0].value, env)
        except concrete.Unknown as e:
            unknown = unknown or f"{text!r}: {e}"
            continue
        want = text[:1].lower() + text[1:]
        if got != want:
            bad = bad or (text, got, want)
    if bad:
        text, got, want = bad
        ctx.refuted(rule, name, f"{text!r}->{got!r}", cas.loc(fn), f"lowercase_first({text!r}) is {got!r}, not {want!r}: more than the first character is changed, so the camelCase key of a field whose first "
                    "word is a single letter (x_offset) loses the capital that starts its second word and is no longer the JSON name protoc assigns (xOffset)",
                    "M(x_offset=1).to_json() parsed by google.protobuf.json_format")
    elif unknown:
        ctx.inconclusive(rule, name, unknown[:300], cas.loc(fn))
    else:
        ctx.proved(rule, name, cas.loc(fn), f"{len(K6_PROBES)} distinguished strings")


def rule_I2(ctx, rule: str = "I2") -> None:
    """enum member names: (a) only a true prefix of the proto name is ever cut off (never a match found in the middle),
    (b) what is left is not empty, (c) the enum compiler makes sure the members of one enum stay distinct"""
    from ..sym import walk, calls
    nam = ctx.repo.mod(M_NAMING)
    fn = nam.func("pythonize_enum_member_name")
    name = N(fn.args.args[0].arg)
    paths = Interp(nam).run(fn)
    ctx.count(len(paths))
    bad_anchor = bad_empty = None
    n_cut = 0
    for p in paths:
        if p.outcome != "return" or p.value is None:
            continue
        v = p.value
        # slices of the incoming name inside the returned term
        cuts = [t for t in walk(v) if t[0] in ("slice", "sub") and t[1] == name and t != name]
        if not cuts:
            continue
        n_cut += 1
        # (a) the path must have established name.startswith(P) and cut exactly len(P) characters
        sw = [k for k, val in p.valuation.items() if val and k[0] == "call" and k[1][0] == "a" and k[1][1] == name and k[1][2] == "startswith" and len(k[2]) == 1]
        anchored = False
        for k in sw:
            prefix = k[2][0]
            want = ("call", N("len"), (prefix,), ())
            if any(want in list(walk(c)) for c in cuts):
                anchored = True
        if not anchored:
            bad_anchor = p
        # (b) the remainder was tested for emptiness on this path
        rem_tested = any(val and any(c in list(walk(k)) for c in cuts) and not (k[0] == "call" and k[1][0] == "a" and k[1][2] == "startswith") for k, val in p.valuation.items())

        def falls_back(t) -> bool:
            """every use of the shortened name in t is an operand of an `or` that ends in something not shortened (`rest or name`)"""
            if not any(c in list(walk(t)) for c in cuts):
                return True
            if t[0] == "op" and t[1] == "or" and not any(c in list(walk(t[-1])) for c in cuts):
                return True
            if t in cuts or t[0] in ("c", "n"):
                return False
            kids = [x for x in t[1:] if isinstance(x, tuple)]
            if t[0] == "call":
                kids = [t[1]] + list(t[2]) + [v_ for _, v_ in t[3]]
            elif t[0] in ("tuple", "list", "set"):
                kids = list(t[1])
            return all(falls_back(k) for k in kids if isinstance(k, tuple) and k and isinstance(k[0], str))

        if not rem_tested and falls_back(v):
            rem_tested = True
        if not rem_tested:
            bad_empty = p
    uses_find = any(isinstance(n, ast.Call) and isinstance(n.func, ast.Attribute) and n.func.attr in ("find", "index", "rfind", "partition", "split") for n in ast.walk(fn))
    if n_cut == 0:
        ctx.proved(rule, "pythonize_enum_member_name:prefix-only", nam.loc(fn), "the proto name is never shortened")
    elif bad_anchor is not None or uses_find:
        ctx.refuted(rule, "pythonize_enum_member_name:prefix-only", "cut-not-anchored", nam.loc(fn),
                    "the enum name is looked up anywhere in the value name and everything up to it is dropped: ZERO of enum E becomes RO, and values that share a tail "
                    "(A_X_4, B_X_4 of enum X) collapse into one member, so the generated enum loses numbers of the schema", "enum E { ZERO = 0; NEG = -1; }")
    else:
        ctx.proved(rule, "pythonize_enum_member_name:prefix-only", nam.loc(fn), f"{n_cut} shortening paths, all behind startswith(prefix) and cut at len(prefix)")
    if n_cut and bad_empty is not None:
        ctx.refuted(rule, "pythonize_enum_member_name:non-empty", "remainder-untested", nam.loc(fn),
                    "a value named exactly like its enum (or ENUM_) is shortened to the empty string: the generated member has no name", "enum Status { STATUS = 0; }")
    else:
        ctx.proved(rule, "pythonize_enum_member_name:non-empty", nam.loc(fn))
    # (c) distinctness is enforced where the members of one enum are collected
    mods = ctx.repo.mod("src/betterproto/plugin/models.py")
    ec = mods.func("EnumDefinitionCompiler.__post_init__")
    ctx.analysed("EnumDefinitionCompiler.__post_init__")
    guard = None
    weak_guard = None
    # the check may live in a naming helper that is handed all the names of the enum
    scope = [ec]
    for c_ in ast.walk(ec):
        if isinstance(c_, ast.Call) and isinstance(c_.func, ast.Name):
            for m_ in (mods, nam):
                if m_.has(c_.func.id) and isinstance(m_.defs[c_.func.id][0], ast.FunctionDef) and m_.func(c_.func.id) not in scope:
                    scope.append(m_.func(c_.func.id))
    for n in [x for f_ in scope for x in ast.walk(f_)]:
        if isinstance(n, ast.Compare) and any(isinstance(x, ast.Call) and ast.unparse(x.func) == "len" for x in [n.left] + n.comparators):
            txt = ast.unparse(n)
            if "set(" in txt or "{" in txt or "Counter" in txt:
                # what is made distinct: the member *names* ({e.name for ..} / set(e.name for ..) / set(names)), not whole
                # entries (an entry also carries number and comment: equal names with different numbers stay "distinct")
                over_names = False
                for x in ast.walk(n):
                    if isinstance(x, (ast.SetComp, ast.GeneratorExp, ast.ListComp)) and isinstance(x.elt, ast.Attribute) and x.elt.attr in ("name", "py_name"):
                        over_names = True
                    if isinstance(x, ast.Call) and ast.unparse(x.func) in ("set", "Counter", "collections.Counter", "frozenset") and x.args and isinstance(x.args[0], ast.Name) and "name" in x.args[0].id.lower():
                        over_names = True
                if over_names:
                    guard = n
                else:
                    weak_guard = n
    if guard is None:
        # an incremental check: `name in seen` / `name not in seen` against a local set that the same loop fills with the names
        set_locals = {t.id for a in ast.walk(ec) if isinstance(a, (ast.Assign, ast.AnnAssign)) and a.value is not None
                      and ((isinstance(a.value, ast.Call) and ast.unparse(a.value.func) in ("set", "dict", "Counter", "collections.Counter") and not a.value.args) or
                           (isinstance(a.value, ast.Dict) and not a.value.keys))
                      for t in (a.targets if isinstance(a, ast.Assign) else [a.target]) if isinstance(t, ast.Name)}
        for lp in [x for x in ast.walk(ec) if isinstance(x, ast.For)]:
            tests = [c for c in ast.walk(lp) if isinstance(c, ast.Compare) and len(c.ops) == 1 and isinstance(c.ops[0], (ast.In, ast.NotIn)) and isinstance(c.comparators[0], ast.Name)
                     and c.comparators[0].id in set_locals]
            for c in tests:
                key = ast.unparse(c.left)
                sname = c.comparators[0].id
                fills = any((isinstance(k, ast.Call) and isinstance(k.func, ast.Attribute) and k.func.attr == "add" and isinstance(k.func.value, ast.Name) and k.func.value.id == sname
                             and k.args and ast.unparse(k.args[0]) == key) or
                            (isinstance(k, ast.Assign) and any(isinstance(t, ast.Subscript) and isinstance(t.value, ast.Name) and t.value.id == sname and ast.unparse(t.slice) == key for t in k.targets))
                            for k in ast.walk(lp))
                # the compared key is a member name: a `.name` attribute, or a local assigned from the naming function in this loop
                is_name = key.endswith(".name") or any(isinstance(a, ast.Assign) and any(isinstance(t, ast.Name) and t.id == key for t in a.targets) and isinstance(a.value, ast.Call)
                                                       and ("name" in ast.unparse(a.value.func).lower() or any(isinstance(x, ast.Attribute) and x.attr == "name" for g in a.value.args for x in ast.walk(g)))
                                                       for a in ast.walk(lp))
                if fills and is_name:
                    guard = c
    if n_cut == 0 or guard is not None:
        ctx.proved(rule, "EnumDefinitionCompiler:distinct-members", mods.loc(ec), "names are compared for distinctness" if guard is not None else "names are never shortened")
    elif weak_guard is not None:
        ctx.refuted(rule, "EnumDefinitionCompiler:distinct-members", "distinct-entries-not-names", mods.loc(weak_guard),
                    f"the distinctness check `{ast.unparse(weak_guard)}` compares whole entries (name, number, comment), not the member names: two values whose shortened names collide "
                    "but whose numbers differ pass it, the class body assigns the name twice and one number of the schema has no member",
                    "message Holder { enum State { HOLDER_STATE_UNKNOWN = 0; IDLE = 1; HOLDER_STATE_IDLE = 3; } }")
    else:
        ctx.refuted(rule, "EnumDefinitionCompiler:distinct-members", "no-distinctness-check", mods.loc(ec),
                    "member names are shortened (prefix removal) but never checked for distinctness: FOO_A and A of enum Foo become the same member and one number disappears",
                    "enum Foo { FOO_A = 0; A = 1; }")


def reader_lookup(ctx, mod, q: str):
    """how q (from_dict / from_pydict) finds the field of an incoming key, read off the index used with meta_by_field_name on
    every path: (table attribute or None, fallback expressions over $key, location, reason-if-not-recognised)"""
    from ..absint import Interp
    from ..sym import N, walk, show
    fn = mod.func(q)

    def roles(it, depth):
        if depth == 0:
            return [N("$key"), N("$jvalue")] if it[0] == "call" else [N("$key")]
        return None

    paths = Interp(mod, loop_roles=roles).run(fn)
    ctx.count(len(paths))
    loop = next((n for n in ast.walk(fn) if isinstance(n, ast.For)), fn)
    loc = mod.loc(loop)
    table = None
    fbs: List[str] = []
    seen = 0

    def is_get(t):
        return t[0] == "call" and t[1][0] == "a" and t[1][2] == "get" and t[1][1][0] == "a" and t[1][1][1][0] == "a" and t[1][1][1][2] == "_betterproto" \
            and t[1][1][2] != "meta_by_field_name" and len(t[2]) == 1 and t[2][0] == N("$key")

    for p in paths:
        idx = set()
        terms = list(p.valuation) + [e.data for e in p.events if isinstance(e.data, tuple)]
        for t0 in terms:
            for t_ in walk(t0):
                if t_[0] == "sub" and t_[1][0] == "a" and t_[1][2] == "meta_by_field_name":
                    idx.add(t_[2])
                if t_[0] == "call" and t_[1][0] == "a" and t_[1][2] == "get" and t_[1][1][0] == "a" and t_[1][1][2] == "meta_by_field_name" and t_[2]:
                    idx.add(t_[2][0])
        for x in idx:
            seen += 1
            if x[0] == "op" and x[1] == "or" and is_get(x[2]):
                tb = x[2][1][1][2]
                table = table or tb
                if tb != table:
                    return None, [], loc, "different tables consulted"
                fbs.append(show(("op", "or") + tuple(x[3:])) if len(x) > 4 else show(x[3]))
            elif is_get(x):
                # a hit: the path must have decided that the lookup produced something
                hit = any((k == ("op", "is", x, ("c", None)) and not v) or (k == x and v) for k, v in p.valuation.items())
                if not hit:
                    return None, [], loc, "table hit used without testing it"
                table = table or x[1][1][2]
            else:
                gets = [k[2] if k[0] == "op" else k for k, v in p.valuation.items()
                        if (k[0] == "op" and k[1] == "is" and is_get(k[2]) and k[3] == ("c", None) and v) or (is_get(k) and not v)]
                if gets:
                    table = table or gets[0][1][1][2]
                    fbs.append(show(x))
                else:
                    if any(is_get(t_) for t_ in walk(x)):
                        return None, [], loc, f"lookup expression {show(x)} not recognised"
                    return None, [show(x)], loc, None
    if not seen:
        return None, [], loc, "no lookup of the field metadata by name found"
    return table, sorted(set(fbs)), loc, None


def _table_fills_by_paths(ctx, mod, init: ast.AST, table_attr: str):
    """{(normalised key text, casing text)} for every `T.setdefault(K, f)` / `T[K] = f` event on the paths of the metadata
    constructor where T is what ends up in self.<table_attr>, f the current field name of an enclosing loop over all field
    names, and K applies a casing (an element of an enclosing loop over a literal tuple of casings, or a named one) to f"""
    from ..sym import subst as _subst
    paths = Interp(mod, named_containers=True).run(init)
    ctx.count(len(paths))
    out = set()
    if not paths:
        return out
    tables = {e.data[1] for p in paths for e in p.events if e.kind == "store" and e.data[0][0] == "a" and e.data[0][2] == table_attr}
    if len(tables) != 1:
        return out
    T = next(iter(tables))
    fields_terms = {e.data for p in paths for e in p.events if e.kind == "call" and dotted(e.data[1]).endswith("fields") and len(e.data[2]) == 1}
    # dicts that receive an entry keyed by the field's name for every field, on every path
    keyed = None
    for p in paths:
        here = set()
        for e in p.events:
            if e.kind == "store" and e.data[0][0] == "sub" and e.data[0][1][0] == "n" and e.loops and e.loops[-1] in fields_terms \
                    and e.data[0][2] == A(("elem", e.loops[-1]), "name") and len(e.loops) == 1:
                here.add(e.data[0][1])
        keyed = here if keyed is None else keyed & here
    keyed = keyed or set()

    def all_names_iterable(it) -> bool:
        if it in keyed:
            return True
        if it[0] == "call" and dotted(it[1]) in ("tuple", "list", "sorted", "iter", "reversed") and len(it[2]) == 1:
            return all_names_iterable(it[2][0])
        if it[0] == "call" and it[1][0] == "a" and it[1][2] == "keys" and not it[2]:
            return all_names_iterable(it[1][1])
        return False

    for p in paths:
        for e in p.events:
            K = V = None
            if e.kind == "call" and e.data[1][0] == "a" and e.data[1][2] == "setdefault" and e.data[1][1] == T and len(e.data[2]) == 2:
                K, V = e.data[2]
            elif e.kind == "store" and e.data[0][0] == "sub" and e.data[0][1] == T:
                K, V = e.data[0][2], e.data[1]
                # a store may be guarded by `K not in T` only (then the key is in the table either way)
            if K is None:
                continue
            name_terms = [("elem", l) for l in e.loops if all_names_iterable(l)] + [A(("elem", l), "name") for l in e.loops if l in fields_terms]
            if V not in name_terms:
                continue
            guards = [k for k in p.valuation if k[0] == "op" and k[1] in ("in", "not in") and len(k) == 4 and k[3] == T]
            if any(k[2] != K for k in guards):
                continue
            other = [k for k in p.valuation if any(x == V or x == K for x in walk_terms(k)) and k not in guards]
            if other:
                continue
            applied = [x for x in walk_terms(K) if x[0] == "call" and x[2] == (V,) and not x[3]]
            for call in applied:
                f = call[1]
                norm = lambda t: show(_subst(_subst(t, lambda x: N("$casing") if x == f else None), lambda x: N("$field") if x == V else None))
                if f[0] == "elem" and f[1] in e.loops and f[1][0] in ("tuple", "list"):
                    for cas in f[1][1]:
                        out.add((norm(K), show(cas)))
                elif f[0] == "elem" and f[1] in e.loops and f[1][0] == "c" and isinstance(f[1][1], tuple):
                    for cas in f[1][1]:
                        out.add((norm(K), str(cas)))
                else:
                    out.add((norm(K), show(f)))
    return out


def walk_terms(t):
    from ..sym import walk as _w
    return _w(t)


def _norm_key_expr(e: ast.AST, casing_name: str, field_name: str) -> str:
    """key expression with its two variables renamed to $casing / $field"""
    class R(ast.NodeTransformer):
        def visit_Name(self, n):
            if n.id == casing_name:
                return ast.copy_location(ast.Name("$casing", n.ctx), n)
            if n.id == field_name:
                return ast.copy_location(ast.Name("$field", n.ctx), n)
            return n
    import copy
    return ast.unparse(R().visit(copy.deepcopy(e)))


def _normalised_init(mod, init: ast.AST, table_attr: str) -> ast.AST:
    """A copy of the metadata constructor in which (a) the statement `self.<table> = self.M(args)` / `T = self.M(args)`
    (M a method of the metadata whose body is straight-line code ending in its only return) is replaced by M's body over
    renamed locals, and (b) `T = {K: V for a in A for b in B}` is written as the loops it abbreviates.  Both rewritings
    preserve what the constructor computes; they only bring other spellings to the form the table analysis reads."""
    import copy
    fn = copy.deepcopy(init)
    self_name = fn.args.args[0].arg

    def inline(st):
        tgt = st.targets[0] if isinstance(st, ast.Assign) and len(st.targets) == 1 else getattr(st, "target", None)
        v = getattr(st, "value", None)
        if tgt is None or not (isinstance(v, ast.Call) and isinstance(v.func, ast.Attribute) and not v.keywords):
            return None
        base = ast.unparse(v.func.value)
        if base not in (self_name, "ProtoClassMetadata", f"type({self_name})", f"{self_name}.__class__") or not mod.has(f"ProtoClassMetadata.{v.func.attr}"):
            return None
        m = mod.func(f"ProtoClassMetadata.{v.func.attr}")
        static = any(ast.unparse(d) == "staticmethod" for d in m.decorator_list)
        params = [a.arg for a in m.args.args]
        if not static:
            params = params[1:]
        if len(params) != len(v.args) or m.args.vararg or m.args.kwarg or m.args.kwonlyargs:
            return None
        body = [b for b in m.body if not (isinstance(b, ast.Expr) and isinstance(b.value, ast.Constant))]
        if not body or not isinstance(body[-1], ast.Return) or body[-1].value is None or any(isinstance(n, (ast.Return, ast.Yield, ast.YieldFrom)) for b in body[:-1] for n in ast.walk(b)):
            return None
        local = set(params) | {n.id for b in body for n in ast.walk(b) if isinstance(n, ast.Name) and isinstance(n.ctx, ast.Store)}

        class Ren(ast.NodeTransformer):
            def visit_Name(self, n):
                if n.id in local:
                    return ast.copy_location(ast.Name(n.id + "__inl", n.ctx), n)
                if not static and n.id == m.args.args[0].arg:
                    return ast.copy_location(ast.Name(self_name, n.ctx), n)
                return n
        out = [ast.copy_location(ast.Assign([ast.Name(p_ + "__inl", ast.Store())], a, lineno=st.lineno), st) for p_, a in zip(params, v.args)]
        for b in body[:-1]:
            out.append(Ren().visit(copy.deepcopy(b)))
        out.append(ast.copy_location(ast.Assign([tgt], Ren().visit(copy.deepcopy(body[-1].value)), lineno=st.lineno), st))
        return out

    def desugar(st):
        tgt = st.targets[0] if isinstance(st, ast.Assign) and len(st.targets) == 1 else getattr(st, "target", None)
        v = getattr(st, "value", None)
        if not (isinstance(tgt, ast.Name) and isinstance(v, ast.DictComp) and len(v.generators) >= 2 and not any(g.ifs or g.is_async for g in v.generators)):
            return None
        inner: ast.stmt = ast.Assign([ast.Subscript(ast.Name(tgt.id, ast.Load()), v.key, ast.Store())], v.value, lineno=st.lineno)
        for g in reversed(v.generators):
            inner = ast.For(g.target, g.iter, [inner], [], lineno=st.lineno)
        return [ast.copy_location(ast.Assign([ast.Name(tgt.id, ast.Store())], ast.Dict([], []), lineno=st.lineno), st), inner]

    flows = {table_attr}
    for n in ast.walk(fn):
        if isinstance(n, ast.Assign) and isinstance(n.targets[0], ast.Attribute) and n.targets[0].attr == table_attr and isinstance(n.value, ast.Name):
            flows.add(n.value.id)
    for _ in range(3):
        new = []
        changed = False
        for st in fn.body:
            tgt = st.targets[0] if isinstance(st, ast.Assign) and len(st.targets) == 1 else getattr(st, "target", None)
            rel = (isinstance(tgt, ast.Name) and tgt.id in flows) or (isinstance(tgt, ast.Attribute) and tgt.attr in flows)
            r = (inline(st) or desugar(st)) if rel and isinstance(st, (ast.Assign, ast.AnnAssign)) else None
            if r is None:
                new.append(st)
            else:
                new += r
                changed = True
                for x in r:
                    if isinstance(x, ast.Assign) and isinstance(x.value, ast.Name) and ((isinstance(x.targets[0], ast.Name) and x.targets[0].id in flows)
                                                                                      or (isinstance(x.targets[0], ast.Attribute) and x.targets[0].attr in flows)):
                        flows.add(x.value.id)
        fn.body = new
        if not changed:
            break
    ast.fix_missing_locations(fn)
    return fn


def _enumeration_kinds(init: ast.AST, seed_keyed, seed_fields):
    """-> {id(For node): kind of what its iterable enumerates}, kinds: 'fields' (every dataclass field), 'names' / 'keyed'
    (every field name; a dict keyed by every field name), 'pairs_name' ((name, x) for every field).  One ordered walk over
    the constructor's statements with an environment of local names and self attributes."""
    self_name = init.args.args[0].arg
    env = {}
    kinds = {}

    def look(e):
        t = ast.unparse(e)
        if t in env:
            return env[t]
        if isinstance(e, ast.Name) and e.id in seed_keyed:
            return "keyed"
        if isinstance(e, ast.Name) and e.id in seed_fields:
            return "fields"
        return None

    def comp_kind(gens, first, dict_key=None):
        if len(gens) != 1 or gens[0].ifs:
            return None
        k = kind(gens[0].iter)
        t = gens[0].target
        name_text = None
        if k == "fields" and isinstance(t, ast.Name):
            name_text = f"{t.id}.name"
        elif k in ("names", "keyed") and isinstance(t, ast.Name):
            name_text = t.id
        elif k == "pairs_name" and isinstance(t, ast.Tuple) and t.elts and isinstance(t.elts[0], ast.Name):
            name_text = t.elts[0].id
        if name_text is None:
            return None
        if dict_key is not None:
            return "keyed" if ast.unparse(dict_key) == name_text else None
        if ast.unparse(first) == name_text:
            return "names"
        if isinstance(first, ast.Tuple) and first.elts and ast.unparse(first.elts[0]) == name_text:
            return "pairs_name"
        return None

    def kind(e):
        if isinstance(e, (ast.Name, ast.Attribute)):
            return look(e)
        if isinstance(e, ast.Call) and not e.keywords:
            f = ast.unparse(e.func)
            if f.endswith("fields") and len(e.args) == 1 and f in ("fields", "dataclasses.fields"):
                return "fields"
            if f in ("tuple", "list", "sorted", "reversed", "iter") and len(e.args) == 1:
                k = kind(e.args[0])
                return "names" if k == "keyed" else k
            if f == "dict" and len(e.args) == 1:
                k = kind(e.args[0])
                return "keyed" if k in ("pairs_name", "keyed") else None
            if isinstance(e.func, ast.Attribute) and not e.args:
                k = kind(e.func.value)
                if k == "keyed" and e.func.attr == "keys":
                    return "names"
                if k == "keyed" and e.func.attr == "items":
                    return "pairs_name"
            return None
        if isinstance(e, (ast.ListComp, ast.GeneratorExp)):
            return comp_kind(e.generators, e.elt)
        if isinstance(e, ast.DictComp):
            return comp_kind(e.generators, None, e.key)
        return None

    def walk(stmts):
        for st in stmts:
            if isinstance(st, (ast.Assign, ast.AnnAssign)) and getattr(st, "value", None) is not None:
                tgts = st.targets if isinstance(st, ast.Assign) else [st.target]
                k = kind(st.value)
                for t in tgts:
                    if isinstance(t, ast.Name) or (isinstance(t, ast.Attribute) and isinstance(t.value, ast.Name) and t.value.id == self_name):
                        if k is None:
                            env.pop(ast.unparse(t), None)
                        else:
                            env[ast.unparse(t)] = k
            elif isinstance(st, ast.For):
                kinds[id(st)] = kind(st.iter)
                walk(st.body)
            elif isinstance(st, (ast.If, ast.With, ast.Try)):
                for blk in ("body", "orelse", "finalbody"):
                    walk(getattr(st, blk, []) or [])
    walk(init.body)
    return kinds


def _resolve_name_table(mod, fn: ast.AST, expr: ast.AST):
    """`X[f]` where the local X was obtained from a method M(arg) of the class metadata that returns the table
    {name: E(arg, name) for name in <all fields>} (possibly through a memo that is only ever filled with M's own results):
    the expression E(arg, f).  None when the shape is not that."""
    import copy
    if not (isinstance(expr, ast.Subscript) and isinstance(expr.value, ast.Name) and isinstance(expr.slice, ast.Name)):
        return None
    asg = [a for a in ast.walk(fn) if isinstance(a, ast.Assign) and len(a.targets) == 1 and isinstance(a.targets[0], ast.Name) and a.targets[0].id == expr.value.id]
    if len(asg) != 1 or not isinstance(asg[0].value, ast.Call) or not isinstance(asg[0].value.func, ast.Attribute) or len(asg[0].value.args) != 1 or asg[0].value.keywords:
        return None
    call = asg[0].value
    q = f"ProtoClassMetadata.{call.func.attr}"
    if not mod.has(q):
        return None
    m = mod.func(q)
    params = [a.arg for a in m.args.args]
    if len(params) != 2:
        return None
    p_arg = params[1]
    comps = []
    memo_attrs = set()

    def helper_comp(v):
        """`self.M2(arg)` with M2 a method of the metadata whose only return is the comprehension: that comprehension over M's parameter"""
        if not (isinstance(v, ast.Call) and isinstance(v.func, ast.Attribute) and isinstance(v.func.value, ast.Name) and v.func.value.id == params[0] and len(v.args) == 1 and not v.keywords
                and isinstance(v.args[0], ast.Name) and v.args[0].id == p_arg and mod.has(f"ProtoClassMetadata.{v.func.attr}")):
            return None
        m2 = mod.func(f"ProtoClassMetadata.{v.func.attr}")
        p2 = [a.arg for a in m2.args.args]
        rets2 = [n.value for n in ast.walk(m2) if isinstance(n, ast.Return) and n.value is not None]
        if len(p2) != 2 or len(rets2) != 1 or not isinstance(rets2[0], ast.DictComp):
            return None

        class Ren(ast.NodeTransformer):
            def visit_Name(self, n):
                if n.id == p2[1]:
                    return ast.copy_location(ast.Name(p_arg, n.ctx), n)
                if n.id == p2[0]:
                    return ast.copy_location(ast.Name(params[0], n.ctx), n)
                return n
        return Ren().visit(copy.deepcopy(rets2[0]))

    for r in [n for n in ast.walk(m) if isinstance(n, ast.Return) and n.value is not None]:
        v = r.value
        if isinstance(v, ast.Name):
            # a local bound once to the table (possibly stored into the memo in the same statement)
            binds = [a for a in ast.walk(m) if isinstance(a, ast.Assign) and any(isinstance(t, ast.Name) and t.id == v.id for t in a.targets)]
            if len(binds) != 1:
                return None
            for t in binds[0].targets:
                if isinstance(t, ast.Subscript) and isinstance(t.value, ast.Attribute) and isinstance(t.slice, ast.Name) and t.slice.id == p_arg:
                    memo_attrs.add(t.value.attr)
                elif not isinstance(t, ast.Name):
                    return None
            v = binds[0].value
        hc = helper_comp(v)
        if hc is not None:
            v = hc
        if isinstance(v, ast.DictComp) and len(v.generators) == 1 and not v.generators[0].ifs and isinstance(v.generators[0].target, ast.Name) \
                and isinstance(v.key, ast.Name) and v.key.id == v.generators[0].target.id and "meta_by_field_name" in ast.unparse(v.generators[0].iter):
            comps.append(v)
        elif isinstance(v, ast.Subscript) and isinstance(v.value, ast.Attribute) and isinstance(v.value.value, ast.Name) and v.value.value.id == params[0] \
                and isinstance(v.slice, ast.Name) and v.slice.id == p_arg:
            memo_attrs.add(v.value.attr)
        else:
            return None
    if not comps:
        return None
    # a memo is fine when everything stored in it is M(<its key>)
    init = mod.func("ProtoClassMetadata.__init__")
    for attr in memo_attrs:
        for n in ast.walk(init):
            pairs = []
            if isinstance(n, ast.Call) and isinstance(n.func, ast.Attribute) and n.func.attr == "update" and isinstance(n.func.value, ast.Attribute) and n.func.value.attr == attr:
                for a in n.args:
                    if isinstance(a, ast.Dict):
                        pairs += list(zip(a.keys, a.values))
                    else:
                        return None
            elif isinstance(n, ast.Assign) and isinstance(n.targets[0], ast.Subscript) and isinstance(n.targets[0].value, ast.Attribute) and n.targets[0].value.attr == attr:
                pairs.append((n.targets[0].slice, n.value))
            elif isinstance(n, ast.Assign) and isinstance(n.targets[0], ast.Attribute) and n.targets[0].attr == attr:
                if isinstance(n.value, ast.Dict):
                    pairs += list(zip(n.value.keys, n.value.values))
                else:
                    return None
            for k, v in pairs:
                src = v
                if isinstance(v, ast.Name):
                    a2 = [a for a in ast.walk(init) if isinstance(a, ast.Assign) and len(a.targets) == 1 and isinstance(a.targets[0], ast.Name) and a.targets[0].id == v.id]
                    src = a2[0].value if len(a2) == 1 else None
                if not (isinstance(src, ast.Call) and isinstance(src.func, ast.Attribute) and src.func.attr == call.func.attr and len(src.args) == 1
                        and k is not None and ast.unparse(src.args[0]) == ast.unparse(k)):
                    return None
    if len({ast.unparse(c_.value) + "|" + ast.unparse(c_.generators[0].iter) for c_ in comps}) > 1:
        return None
    for n in ast.walk(m):
        if isinstance(n, ast.Assign):
            for t in n.targets:
                if isinstance(t, ast.Subscript) and isinstance(t.value, ast.Attribute) and t.value.attr in memo_attrs:
                    if not (isinstance(t.slice, ast.Name) and t.slice.id == p_arg and (isinstance(n.value, ast.DictComp) or helper_comp(n.value) is not None)):
                        return None
    comp = comps[0]
    gen_var = comp.generators[0].target.id

    class R(ast.NodeTransformer):
        def visit_Name(self, n):
            if n.id == p_arg:
                return copy.deepcopy(call.args[0])
            if n.id == gen_var:
                return ast.Name(expr.slice.id, ast.Load())
            return n
    return R().visit(copy.deepcopy(comp.value))


def rule_I3(ctx, rule: str = "I3") -> None:
    """key retraction: every key to_dict / to_pydict can emit for a field is a key of the per-class table that from_dict /
    from_pydict consult first, built with the very same expression over every casing; other spellings fall back to the
    function the plugin used to derive the Python name from the proto name"""
    from ..src import M_INIT
    mod = ctx.repo.mod(M_INIT)
    # (a) emitted keys
    emit = {}
    for q in ("Message.to_dict", "Message.to_pydict"):
        fn = mod.func(q)
        ctx.analysed(q)
        casing_param = fn.args.args[1].arg
        loop = next((n for n in ast.walk(fn) if isinstance(n, ast.For) and "meta_by_field_name" in ast.unparse(n.iter)), None)
        if loop is None or not isinstance(loop.target, ast.Tuple):
            ctx.inconclusive(rule, f"{q}:key-expression", "field loop not recognised", mod.loc(fn))
            return
        fname = loop.target.elts[0].id
        key_vars = {}
        for n in ast.walk(loop):
            if isinstance(n, ast.Assign) and len(n.targets) == 1 and isinstance(n.targets[0], ast.Name) and casing_param in {x.id for x in ast.walk(n.value) if isinstance(x, ast.Name)}:
                key_vars[n.targets[0].id] = n.value
            elif isinstance(n, ast.Assign) and len(n.targets) == 1 and isinstance(n.targets[0], ast.Name):
                res = _resolve_name_table(mod, fn, n.value)
                if res is not None and casing_param in {x.id for x in ast.walk(res) if isinstance(x, ast.Name)}:
                    key_vars[n.targets[0].id] = res
        stores = [n for n in ast.walk(loop) if isinstance(n, ast.Subscript) and isinstance(n.ctx, ast.Store) and isinstance(n.value, ast.Name) and n.value.id == "output"]
        used = set()
        for st in stores:
            k = st.slice
            if isinstance(k, ast.Name) and k.id in key_vars:
                used.add(_norm_key_expr(key_vars[k.id], casing_param, fname))
            else:
                used.add(_norm_key_expr(k, casing_param, fname))
        # the values may be collected under the field names and re-keyed in the return value: {E(f): v for f, v in output.items()}
        rets = [r.value for r in ast.walk(fn) if isinstance(r, ast.Return) and r.value is not None]
        if used == {"$field"} and rets and all(isinstance(r, ast.DictComp) and len(r.generators) == 1 and not r.generators[0].ifs and isinstance(r.generators[0].target, ast.Tuple)
                                              and len(r.generators[0].target.elts) == 2 and isinstance(r.generators[0].target.elts[0], ast.Name)
                                              and ast.unparse(r.generators[0].iter) == "output.items()" and isinstance(r.value, ast.Name)
                                              and isinstance(r.generators[0].target.elts[1], ast.Name) and r.value.id == r.generators[0].target.elts[1].id for r in rets):
            used = {_norm_key_expr(r.key, casing_param, r.generators[0].target.elts[0].id) for r in rets}
        if len(used) != 1:
            ctx.inconclusive(rule, f"{q}:key-expression", f"{len(used)} different key expressions: {sorted(used)}", mod.loc(fn))
            return
        emit[q] = used.pop()
    # casings a caller can pass: the attributes of class Casing
    cas_cls = mod.cls("Casing")
    casings = sorted(f"Casing.{t.id}" for st in cas_cls.body if isinstance(st, ast.Assign) for t in st.targets if isinstance(t, ast.Name))
    # (b) the table
    init = mod.func("ProtoClassMetadata.__init__")
    ctx.analysed("ProtoClassMetadata.__init__")
    table_attr = None
    readers = {}
    for q in ("Message._from_dict_init", "Message.from_pydict"):
        fn = mod.func(q)
        ctx.analysed(q)
        t, fbs, loc, why = reader_lookup(ctx, mod, q)
        if why:
            ctx.inconclusive(rule, f"{q}:lookup", why, mod.loc(fn))
            return
        readers[q] = (t, fbs, loc)
    for q, (t, fb, asg) in readers.items():
        if t is None:
            ctx.refuted(rule, f"{q}:lookup", "derived-from-key", asg,
                        f"{q} derives the field name from the key ({fb[0]}) instead of looking the key up: the casing functions are not inverse to each other "
                        "(address_line_1 -> addressLine1 -> address_line1), so fields with a digit group or single-letter group in their name are silently dropped on a dict / JSON round trip",
                        "M.from_dict(M(address_line_1='x').to_dict())")
        else:
            table_attr = table_attr or t
            if t != table_attr:
                ctx.refuted(rule, f"{q}:lookup", f"{t}!={table_attr}", asg, "the two decoders consult different tables")
            else:
                ctx.proved(rule, f"{q}:lookup", asg, f"table {t} first, then {fb}")
    if table_attr is None:
        return
    # table construction in __init__ (the table has to be complete before the first from_dict, which may precede any to_dict):
    # fills `T[KEY] = field` / `T.setdefault(KEY, field)` inside a loop over all fields, the casing either a loop
    # variable over a literal tuple or written out.  Local copies of the field name (`name = field.name`) are looked through.
    init = _normalised_init(mod, init, table_attr)
    assigned = [n for n in ast.walk(init) if isinstance(n, ast.Assign) and isinstance(n.targets[0], ast.Attribute) and n.targets[0].attr == table_attr]
    if not assigned:
        ctx.refuted(rule, "key-table:construction", "not-built-at-construction", mod.loc(init),
                    f"{table_attr} is not built when the class metadata is constructed: from_dict on a class whose objects were not serialised before cannot find the emitted keys")
        return
    src_var = ast.unparse(assigned[0].value)
    # iterables that enumerate every field: dataclasses.fields(cls) itself, and dicts that receive an entry keyed by the
    # field name for every element of such an iterable (unconditionally, directly in the loop body)
    field_lists = {n.targets[0].id for n in ast.walk(init) if isinstance(n, ast.Assign) and isinstance(n.targets[0], ast.Name)
                   and isinstance(n.value, ast.Call) and ast.unparse(n.value.func).endswith("fields")}
    all_loops = [n for n in ast.walk(init) if isinstance(n, ast.For) and isinstance(n.target, ast.Name)]

    def name_terms(loop: ast.For):
        """source texts that denote the name of the current field inside this loop"""
        it = ast.unparse(loop.iter)
        base = None
        ek = _enumeration_kinds(init, name_keyed, field_lists).get(id(loop))
        if it in field_lists or ek == "fields":
            base = f"{loop.target.id}.name"
        elif it in name_keyed or (it.endswith(".keys()") and it[:-7] in name_keyed) or ek in ("names", "keyed"):
            base = loop.target.id
        if base is None:
            return set()
        out = {base}
        for st in loop.body:
            if isinstance(st, ast.Assign) and len(st.targets) == 1 and isinstance(st.targets[0], ast.Name) and ast.unparse(st.value) in out:
                out.add(st.targets[0].id)
        return out

    field_pair_lists = {n.targets[0].id for n in ast.walk(init) if isinstance(n, ast.Assign) and isinstance(n.targets[0], ast.Name) and isinstance(n.value, ast.ListComp)
                        and len(n.value.generators) == 1 and not n.value.generators[0].ifs and ast.unparse(n.value.generators[0].iter) in field_lists
                        and isinstance(n.value.generators[0].target, ast.Name) and isinstance(n.value.elt, ast.Tuple) and n.value.elt.elts
                        and isinstance(n.value.elt.elts[0], ast.Name) and n.value.elt.elts[0].id == n.value.generators[0].target.id}
    name_keyed: set = set()
    for _ in range(2):
        # {field.name: .. for field in fields} / {name: .. for name, meta in by_name.items()}: keyed by every field name too
        for a_ in ast.walk(init):
            if isinstance(a_, (ast.Assign, ast.AnnAssign)) and isinstance(getattr(a_, "value", None), ast.DictComp) and len(a_.value.generators) == 1 and not a_.value.generators[0].ifs:
                tgt_ = a_.targets[0] if isinstance(a_, ast.Assign) else a_.target
                gen = a_.value.generators[0]
                it_ = ast.unparse(gen.iter)
                key_ = ast.unparse(a_.value.key)
                if not isinstance(tgt_, ast.Name):
                    continue
                if it_ in field_lists and isinstance(gen.target, ast.Name) and key_ == f"{gen.target.id}.name":
                    name_keyed.add(tgt_.id)
                # [(field, <anything>) for field in fields] enumerates every field as the first item of a pair
                if it_ in field_pair_lists and isinstance(gen.target, ast.Tuple) and gen.target.elts and isinstance(gen.target.elts[0], ast.Name) and key_ == f"{gen.target.elts[0].id}.name":
                    name_keyed.add(tgt_.id)
                base_ = it_[:-8] if it_.endswith(".items()") else it_[:-7] if it_.endswith(".keys()") else it_
                if base_ in name_keyed:
                    first = gen.target.elts[0] if isinstance(gen.target, ast.Tuple) else gen.target
                    if isinstance(first, ast.Name) and key_ == first.id and (it_.endswith(".items()") or not isinstance(gen.target, ast.Tuple)):
                        name_keyed.add(tgt_.id)
        for loop in all_loops:
            nt = name_terms(loop)
            for st in loop.body:
                if nt and isinstance(st, ast.Assign) and isinstance(st.targets[0], ast.Subscript) and isinstance(st.targets[0].value, ast.Name) \
                        and ast.unparse(st.targets[0].slice) in nt:
                    name_keyed.add(st.targets[0].value.id)

    def subst(e: ast.AST, nt, extra=None) -> ast.AST:
        import copy
        class R(ast.NodeTransformer):
            def visit(self, n):
                if isinstance(n, ast.expr) and ast.unparse(n) in nt:
                    return ast.Name("$field", ast.Load())
                return super().visit(n)
        return R().visit(copy.deepcopy(e))

    fills = []     # (normalised key expr with $casing/$field, casing text, all-fields loop?, node)
    for loop in all_loops:
        nt = name_terms(loop)
        if not nt:
            continue
        for c in ast.walk(loop):
            keyexpr = None
            if isinstance(c, ast.Call) and isinstance(c.func, ast.Attribute) and c.func.attr == "setdefault" and len(c.args) == 2:
                keyexpr, tgt, val = c.args[0], c.func.value, c.args[1]
            elif isinstance(c, ast.Assign) and isinstance(c.targets[0], ast.Subscript):
                keyexpr, tgt, val = c.targets[0].slice, c.targets[0].value, c.value
            if keyexpr is None or ast.unparse(tgt) != src_var or ast.unparse(val) not in nt:
                continue
            res_ = _resolve_name_table(mod, init, keyexpr)
            if res_ is not None:
                keyexpr = res_
            ke = subst(keyexpr, nt)
            # which casing function is applied to the field name in the key?
            inner = next((n for n in ast.walk(loop) if isinstance(n, ast.For) and n is not loop and isinstance(n.target, ast.Name) and isinstance(n.iter, (ast.Tuple, ast.List))
                          and c in list(ast.walk(n))), None)
            applied = [x for x in ast.walk(ke) if isinstance(x, ast.Call) and len(x.args) == 1 and ast.unparse(x.args[0]) == "$field"]
            for call in applied:
                f = call.func
                if inner is not None and isinstance(f, ast.Name) and f.id == inner.target.id:
                    for e in inner.iter.elts:
                        fills.append((_norm_key_expr(ke, inner.target.id, "$field"), ast.unparse(e), True, c))
                else:
                    import copy
                    ke2 = copy.deepcopy(ke)
                    for x in ast.walk(ke2):
                        if isinstance(x, ast.Call) and ast.dump(x.func) == ast.dump(f):
                            x.func = ast.Name("$casing", ast.Load())
                    fills.append((_norm_key_expr(ke2, "$casing", "$field"), ast.unparse(f), True, c))
    if not fills:
        # other ways of writing the construction: read off the paths of the constructor (E2) which (key, field) pairs are put
        # into the table inside a loop over all field names
        for k_, cas_ in _table_fills_by_paths(ctx, mod, init, table_attr):
            fills.append((k_, cas_, True, assigned[0]))
    node = fills[0][3] if fills else assigned[0]
    # "receives no cased keys" is a statement about a construction that was read in full: a helper of the repository that
    # builds (part of) the table and was not followed leaves the question open instead
    opaque_source = None
    if not fills:
        flow = {src_var}
        for a_ in ast.walk(init):
            if isinstance(a_, (ast.Assign, ast.AnnAssign)) and getattr(a_, "value", None) is not None:
                t_ = a_.targets[0] if isinstance(a_, ast.Assign) else a_.target
                if ast.unparse(t_) in flow or (isinstance(t_, ast.Attribute) and t_.attr == table_attr):
                    for c_ in ast.walk(a_.value):
                        if isinstance(c_, ast.Call):
                            f_ = c_.func.id if isinstance(c_.func, ast.Name) else c_.func.attr if isinstance(c_.func, ast.Attribute) else None
                            if f_ and (mod.has(f_) or mod.has(f"ProtoClassMetadata.{f_}")) and f_ not in ("Casing",):
                                opaque_source = opaque_source or f_
    for q, e in emit.items():
        name = f"{q}:keys-in-table"
        covered = sorted({cas for k, cas, dom, _ in fills if k == e and dom})
        if not fills and opaque_source:
            ctx.inconclusive(rule, name, f"the construction of {table_attr} goes through {opaque_source}, which is not read", mod.loc(node))
        elif not fills:
            ctx.refuted(rule, name, "no-cased-keys-at-construction", mod.loc(node),
                        f"when the class metadata is built, {table_attr} receives no cased keys (only what {src_var} holds); {q} emits {e}. Keys recorded later (e.g. while serialising) "
                        "are missing for a process that parses before it serialises", "a consumer calling M.from_json on text produced elsewhere")
        elif not any(k == e for k, _, _, _ in fills):
            ctx.refuted(rule, name, f"{e}!={fills[0][0]}", mod.loc(node),
                        f"{q} emits the key {e} but the lookup table is built from {fills[0][0]}: emitted keys are not found again")
        elif not set(casings) <= set(covered):
            ctx.refuted(rule, name, f"casings {covered}", mod.loc(node),
                        f"the table covers the casings {covered} but to_dict accepts {casings}: keys emitted under the other casing are mapped back by the lossy fallback "
                        "(md5sum -> 'md5_sum' -> field 'md5_sum'?)", "M.from_dict(m.to_dict(casing=Casing.SNAKE)) for a field named md5sum")
        else:
            ctx.proved(rule, name, mod.loc(node), f"key {e} for casing in {covered} over the set of all fields")
    # fallback = the plugin's proto-name -> Python-name function
    nam = ctx.repo.mod(M_NAMING)
    pf = nam.func("pythonize_field_name")
    ret = next((ast.unparse(n.value) for n in ast.walk(pf) if isinstance(n, ast.Return) and n.value is not None), "")
    want = ret.replace("casing.", "").replace(pf.args.args[0].arg, "$key")
    for q, (t, fb, asg) in readers.items():
        if fb and set(fb) == {want}:
            ctx.proved(rule, f"{q}:proto-name-fallback", asg, want)
        else:
            ctx.refuted(rule, f"{q}:proto-name-fallback", f"{fb}!={want}", asg,
                        f"keys that are not emitted forms (e.g. the original proto field name) are mapped with {fb}, but the plugin derived the Python name with {want}")


def rule_I4(ctx, rule: str = "I4") -> None:
    """every name an enum member is generated under went through the sanitiser: in EnumDefinitionCompiler.__post_init__, what
    reaches `EnumEntry(name=..)` or `<entry>.name = ..` - on the ordinary path and on the fallback taken when prefix-stripped
    names collide - is the result of pythonize_enum_member_name / sanitize_name (functions of compile/naming and casing that
    I1 decides at all keywords), never a proto value name as it stands.  A small def-use pass over the locals of the method:
    comprehension results, loop / comprehension targets bound from zip / enumerate over such lists, re-assignments joined."""
    from ..src import M_MODELS
    mod = ctx.repo.mod(M_MODELS)
    fn = mod.func("EnumDefinitionCompiler.__post_init__")
    ctx.analysed("EnumDefinitionCompiler.__post_init__")
    name = "EnumDefinitionCompiler:member-names-sanitised"
    # the sanitisers: casing.sanitize_name, and every function of compile/naming whose returns are all fed by a sanitiser
    # (the same def-use pass, run to a fixed point)
    SAN = {"sanitize_name"}
    nam = ctx.repo.mod(M_NAMING)
    for _ in range(4):
        grew = False
        for q, h in nam.functions():
            if "." in q or q in SAN:
                continue
            if _san_pass(h, SAN)[1] is True:
                SAN.add(q)
                grew = True
        if not grew:
            break
    results, _ret = _san_pass(fn, SAN)
    _finish_I4(ctx, rule, name, mod, fn, results)


def _finish_I4(ctx, rule, name, mod, fn, results) -> None:
    if not results:
        ctx.inconclusive(rule, name, "no EnumEntry(name=..) construction found", mod.loc(fn))
        return
    ctx.count(len(results))
    raw = [nd for r, nd in results if r is False]
    unk = [nd for r, nd in results if r is None]
    if raw:
        ctx.refuted(rule, name, "raw-proto-name", mod.loc(raw[0]),
                    "an enum member can be generated under the proto value name as it stands (not passed through sanitize_name / pythonize_enum_member_name): a value named like a "
                    "Python keyword (None, class, ...) makes the generated module a syntax error",
                    "enum Kind { KIND_None = 0; None = 1; }  (prefix-stripped names collide, the fallback keeps the raw names)")
    elif unk:
        ctx.inconclusive(rule, name, f"a member name of unknown origin: {ast.unparse(unk[0])[:80]}", mod.loc(unk[0]))
    else:
        ctx.proved(rule, name, mod.loc(fn), f"{len(results)} name sinks, all fed by the sanitiser")


def _san_pass(fn, SAN):
    """-> ([(status, node)] for the name sinks of fn, joined status of fn's return values)"""

    env = {}      # local -> True (sanitised) / False (raw) / None (unknown); lists stand for their elements

    def join(a, b):
        if a is False or b is False:
            return False
        if a is None or b is None:
            return None
        return True

    def elem(e, scope):
        """sanitisation status of the elements of iterable e"""
        if isinstance(e, ast.Name):
            return scope.get(e.id, env.get(e.id))
        if isinstance(e, (ast.ListComp, ast.GeneratorExp)):
            return san(e, scope)
        if isinstance(e, ast.Call) and isinstance(e.func, ast.Name) and e.func.id in ("list", "tuple", "sorted", "reversed", "iter") and len(e.args) == 1:
            return elem(e.args[0], scope)
        return None

    def bind(target, it, scope):
        """bind the names of a loop / comprehension target from the iterable"""
        if isinstance(it, ast.Call) and isinstance(it.func, ast.Name) and it.func.id == "enumerate" and it.args and isinstance(target, ast.Tuple) and len(target.elts) == 2:
            bind(target.elts[1], it.args[0], scope)
            return
        if isinstance(it, ast.Call) and isinstance(it.func, ast.Name) and it.func.id == "zip" and isinstance(target, ast.Tuple) and len(target.elts) == len(it.args):
            for t_, a_ in zip(target.elts, it.args):
                bind(t_, a_, scope)
            return
        if isinstance(target, ast.Name):
            scope[target.id] = elem(it, scope)
        else:
            for x in ast.walk(target):
                if isinstance(x, ast.Name):
                    scope[x.id] = None

    def san(e, scope):
        if isinstance(e, ast.Call):
            f = e.func.id if isinstance(e.func, ast.Name) else e.func.attr if isinstance(e.func, ast.Attribute) else None
            if f in SAN:
                return True
            return None
        if isinstance(e, ast.Name):
            return scope.get(e.id, env.get(e.id))
        if isinstance(e, ast.Attribute) and e.attr == "name":
            # `<proto value>.name`: a raw name of the schema; `<entry>.name` of an entry built here: what the entry was given
            base = san(e.value, scope) if isinstance(e.value, ast.Name) and (e.value.id in scope or e.value.id in env) and (scope.get(e.value.id, env.get(e.value.id)) == "entry") else None
            return False if base is None else None
        if isinstance(e, ast.IfExp):
            return join(san(e.body, scope), san(e.orelse, scope))
        if isinstance(e, ast.Subscript) and isinstance(e.value, ast.Name):
            return elem(e.value, scope)          # an element of a list of names
        if isinstance(e, (ast.ListComp, ast.GeneratorExp)):
            sc = dict(scope)
            for g_ in e.generators:
                bind(g_.target, g_.iter, sc)
            return san(e.elt, sc)
        if isinstance(e, ast.Constant) and isinstance(e.value, str):
            return None
        return None

    sinks = []     # (status, node)

    def scan_expr(e, scope):
        for c in ast.walk(e):
            if isinstance(c, ast.Call) and ast.unparse(c.func).endswith("EnumEntry"):
                for k in c.keywords:
                    if k.arg == "name":
                        # the scope at the call: comprehension targets around it
                        sinks.append((k.value, c))

    def visit(stmts, scope):
        for st in stmts:
            if isinstance(st, (ast.Assign, ast.AnnAssign)) and getattr(st, "value", None) is not None:
                tgts = st.targets if isinstance(st, ast.Assign) else [st.target]
                for t in tgts:
                    if isinstance(t, ast.Name):
                        v = san(st.value, scope)
                        env[t.id] = v if t.id not in env else join(env[t.id], v)
                    elif isinstance(t, ast.Attribute) and t.attr == "name" and not (isinstance(t.value, ast.Name) and t.value.id == "self"):
                        results.append((san(st.value, scope), st))
            elif isinstance(st, ast.Return) and st.value is not None:
                rets.append(st.value)
            elif isinstance(st, ast.For):
                sc = dict(scope)
                bind(st.target, st.iter, sc)
                visit(st.body, sc)
            elif isinstance(st, ast.If):
                visit(st.body, scope)
                visit(st.orelse, scope)
            elif isinstance(st, (ast.With, ast.Try)):
                visit(st.body, scope)
            # EnumEntry(name=..) calls inside this statement, with the comprehension scopes around them
            for c in ast.walk(st) if not isinstance(st, (ast.For, ast.If, ast.With, ast.Try)) else []:
                if isinstance(c, (ast.ListComp, ast.GeneratorExp)):
                    sc = dict(scope)
                    for g_ in c.generators:
                        bind(g_.target, g_.iter, sc)
                    for k in [k for cc in ast.walk(c.elt) if isinstance(cc, ast.Call) and ast.unparse(cc.func).endswith("EnumEntry") for k in cc.keywords if k.arg == "name"]:
                        pending.append((k.value, sc, c))
                elif isinstance(c, ast.Call) and ast.unparse(c.func).endswith("EnumEntry") and not any(c in list(ast.walk(lc.elt)) for lc in ast.walk(st) if isinstance(lc, (ast.ListComp, ast.GeneratorExp))):
                    for k in c.keywords:
                        if k.arg == "name":
                            pending.append((k.value, dict(scope), c))

    results = []
    pending = []
    rets = []
    visit(fn.body, {})
    # joined statuses are final only after the whole body was read (a later re-assignment taints earlier-bound lists too)
    for v, sc, node in pending:
        sc2 = dict(sc)
        if isinstance(node, (ast.ListComp, ast.GeneratorExp)):
            sc2 = {}
            for g_ in node.generators:
                bind(g_.target, g_.iter, sc2)
        results.append((san(v, sc2), node))
    ret_status = True if rets else None
    for r in rets:
        ret_status = join(ret_status, san(r, {}))
    return results, ret_status


def run(ctx) -> None:
    ctx.rules_run.append("I1")
    rule_I1(ctx)
    ctx.rules_run.append("I2")
    rule_I2(ctx)
    ctx.rules_run.append("I3")
    rule_I3(ctx)
    ctx.rules_run.append("K6")
    rule_K6(ctx)
    ctx.rules_run.append("I4")
    rule_I4(ctx)
    from . import jsonrules
    ctx.rules_run += ["J4", "K2"]
    jsonrules.rule_J4(ctx)      # from_dict maps every key through safe_snake_case (the only decided part of the retraction clause)
    jsonrules.rule_K2(ctx)
    ctx.notes.append("NOT DECIDED: safe_snake_case(camel_case(f)) == f and idempotence (regular-expression semantics; known counter-examples address_line_1, x_y_z)")
