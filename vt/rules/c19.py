"""C19 - name mapping is total and safe (I1). The retraction clause is not decided."""
from __future__ import annotations

import ast

from ..absint import Interp
from ..src import AnalysisError, M_CASING, M_NAMING
from ..sym import N, dotted, show

PROP = "C19"
TECHNIQUE = "dataflow: every pythonize_* result flows through the keyword/identifier guard; both guard branches exist (E2 summary of sanitize_name)"
EXPLANATION = (
    "Static guard check: the value returned by each pythonize_* function and by safe_snake_case is shown to flow through sanitize_name, "
    "and sanitize_name's summary is shown to contain the keyword branch (suffix '_') and the non-identifier branch (prefix '_') with "
    "tests keyword.iskeyword / str.isidentifier. This decides only the 'valid identifier, not a keyword' clause. The retraction clause "
    "(to_dict key maps back to its field; idempotence) is a property of regular-expression semantics over strings and is NOT decided "
    "(it is known by inspection to fail for names such as address_line_1 and x_y_z)."
)
RULE_TEXT = "obligation = (rule, function); evaluations = abstract paths; non-trivial = distinct naming functions"


def rule_I1(ctx) -> None:
    cas = ctx.repo.mod(M_CASING)
    nam = ctx.repo.mod(M_NAMING)
    sn = cas.func("sanitize_name")
    ctx.analysed("sanitize_name", "safe_snake_case")
    p0 = sn.args.args[0].arg
    paths = Interp(cas).run(sn)
    ctx.count(len(paths))
    kw_branch = ident_branch = passthrough = False
    for p in paths:
        v = p.value
        kw_atom = ("call", ("a", N("keyword"), "iskeyword"), (N(p0),), ())
        id_atom = ("call", ("a", N(p0), "isidentifier"), (), ())
        if p.valuation.get(kw_atom) is True and v is not None and v != N(p0) and show(v).replace(" ", "") in (f'f"{{{p0}}}_"', f"({p0}+'_')"):
            kw_branch = True
        if p.valuation.get(kw_atom) is False and p.valuation.get(id_atom) is False and v is not None and v != N(p0):
            ident_branch = True
        if p.valuation.get(kw_atom) is False and p.valuation.get(id_atom) is True and v == N(p0):
            passthrough = True
    if kw_branch and ident_branch and passthrough:
        ctx.proved("I1", "sanitize_name:both-guards", cas.loc(sn))
    else:
        missing = [n for n, ok in (("keyword -> suffix '_'", kw_branch), ("not str.isidentifier() -> prefix '_'", ident_branch), ("valid name unchanged", passthrough)) if not ok]
        ctx.refuted("I1", "sanitize_name:both-guards", ";".join(missing), cas.loc(sn),
                    f"sanitize_name lacks: {missing} - some proto identifiers map to names that are keywords or not identifiers (e.g. '' or a name starting with a digit)",
                    "pythonize_field_name('_') / pythonize_field_name('class')")
    ssc = cas.func("safe_snake_case")
    paths = Interp(cas).run(ssc)
    if all(p.value is not None and p.value[0] == "call" and dotted(p.value[1]) == "sanitize_name" for p in paths if p.outcome == "return"):
        ctx.proved("I1", "safe_snake_case:guarded", cas.loc(ssc))
    else:
        ctx.refuted("I1", "safe_snake_case:guarded", "unguarded", cas.loc(ssc), "safe_snake_case does not return sanitize_name(...)")
    n = 0
    for q, fn in nam.functions():
        if not q.startswith("pythonize_"):
            continue
        n += 1
        ctx.analysed(q)
        paths = Interp(nam).run(fn)
        ctx.count(len(paths))
        bad = []
        for p in paths:
            if p.outcome != "return" or p.value is None:
                continue
            v = p.value
            if not (v[0] == "call" and dotted(v[1]).split(".")[-1] in ("sanitize_name", "safe_snake_case")):
                bad.append(show(v))
        if bad:
            ctx.refuted("I1", f"{q}:guarded", "unguarded", nam.loc(fn),
                        f"{q} returns {bad[0]} without passing it through sanitize_name: a proto name whose cased form is a Python keyword (None, True, False for class names) becomes `class None`",
                        f"{q}('none')" if "class" in q else f"{q}('class')")
        else:
            ctx.proved("I1", f"{q}:guarded", nam.loc(fn))
    ctx.floor("I1", "pythonize_* functions", n, 4)


def rule_I2(ctx, rule: str = "I2") -> None:
    """enum member names: (a) only a true prefix of the proto name is ever cut off (never a match found in the middle),
    (b) what is left is not empty, (c) the enum compiler makes sure the members of one enum stay distinct"""
    from ..sym import walk, calls
    nam = ctx.repo.mod(M_NAMING)
    fn = nam.func("pythonize_enum_member_name")
    name = N(fn.args.args[0].arg)
    paths = Interp(nam).run(fn)
    ctx.count(len(paths))
    bad_anchor = bad_empty = None
    n_cut = 0
    for p in paths:
        if p.outcome != "return" or p.value is None:
            continue
        v = p.value
        # slices of the incoming name inside the returned term
        cuts = [t for t in walk(v) if t[0] in ("slice", "sub") and t[1] == name and t != name]
        if not cuts:
            continue
        n_cut += 1
        # (a) the path must have established name.startswith(P) and cut exactly len(P) characters
        sw = [k for k, val in p.valuation.items() if val and k[0] == "call" and k[1][0] == "a" and k[1][1] == name and k[1][2] == "startswith" and len(k[2]) == 1]
        anchored = False
        for k in sw:
            prefix = k[2][0]
            want = ("call", N("len"), (prefix,), ())
            if any(want in list(walk(c)) for c in cuts):
                anchored = True
        if not anchored:
            bad_anchor = p
        # (b) the remainder was tested for emptiness on this path
        rem_tested = any(val and any(c in list(walk(k)) for c in cuts) and not (k[0] == "call" and k[1][0] == "a" and k[1][2] == "startswith") for k, val in p.valuation.items())
        if not rem_tested:
            bad_empty = p
    uses_find = any(isinstance(n, ast.Call) and isinstance(n.func, ast.Attribute) and n.func.attr in ("find", "index", "rfind", "partition", "split") for n in ast.walk(fn))
    if n_cut == 0:
        ctx.proved(rule, "pythonize_enum_member_name:prefix-only", nam.loc(fn), "the proto name is never shortened")
    elif bad_anchor is not None or uses_find:
        ctx.refuted(rule, "pythonize_enum_member_name:prefix-only", "cut-not-anchored", nam.loc(fn),
                    "the enum name is looked up anywhere in the value name and everything up to it is dropped: ZERO of enum E becomes RO, and values that share a tail "
                    "(A_X_4, B_X_4 of enum X) collapse into one member, so the generated enum loses numbers of the schema", "enum E { ZERO = 0; NEG = -1; }")
    else:
        ctx.proved(rule, "pythonize_enum_member_name:prefix-only", nam.loc(fn), f"{n_cut} shortening paths, all behind startswith(prefix) and cut at len(prefix)")
    if n_cut and bad_empty is not None:
        ctx.refuted(rule, "pythonize_enum_member_name:non-empty", "remainder-untested", nam.loc(fn),
                    "a value named exactly like its enum (or ENUM_) is shortened to the empty string: the generated member has no name", "enum Status { STATUS = 0; }")
    else:
        ctx.proved(rule, "pythonize_enum_member_name:non-empty", nam.loc(fn))
    # (c) distinctness is enforced where the members of one enum are collected
    mods = ctx.repo.mod("src/betterproto/plugin/models.py")
    ec = mods.func("EnumDefinitionCompiler.__post_init__")
    ctx.analysed("EnumDefinitionCompiler.__post_init__")
    guard = None
    for n in ast.walk(ec):
        if isinstance(n, ast.Compare) and any(isinstance(x, ast.Call) and ast.unparse(x.func) == "len" for x in [n.left] + n.comparators):
            txt = ast.unparse(n)
            if "set(" in txt or "{" in txt or "Counter" in txt:
                guard = n
    if n_cut == 0 or guard is not None:
        ctx.proved(rule, "EnumDefinitionCompiler:distinct-members", mods.loc(ec), "names are compared for distinctness" if guard is not None else "names are never shortened")
    else:
        ctx.refuted(rule, "EnumDefinitionCompiler:distinct-members", "no-distinctness-check", mods.loc(ec),
                    "member names are shortened (prefix removal) but never checked for distinctness: FOO_A and A of enum Foo become the same member and one number disappears",
                    "enum Foo { FOO_A = 0; A = 1; }")


def run(ctx) -> None:
    ctx.rules_run.append("I1")
    rule_I1(ctx)
    ctx.rules_run.append("I2")
    rule_I2(ctx)
    from . import jsonrules
    ctx.rules_run += ["J4", "K2"]
    jsonrules.rule_J4(ctx)      # from_dict maps every key through safe_snake_case (the only decided part of the retraction clause)
    jsonrules.rule_K2(ctx)
    ctx.notes.append("NOT DECIDED: safe_snake_case(camel_case(f)) == f and idempotence (regular-expression semantics; known counter-examples address_line_1, x_y_z)")
