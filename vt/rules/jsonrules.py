"""JSON rules: J1-J3 (C04), K1-K3 (C05)."""
from __future__ import annotations

import ast
from typing import Any, Dict, List, Optional, Set, Tuple

from ..absint import Interp, Path
from ..fieldloop import FIELD_NAME, META, TYPE_NAMES, VALUE, interp_for, type_binding, val_text
from ..refsrc import Reference, SPEC_INT64_JSON
from ..src import AnalysisError, M_CASING, M_INIT
from ..sym import A, C, CALL, N, Sym, calls, contains, dotted, show, walk
from .presence import INCL, SELF

SCALAR_TYPES = [t for t in TYPE_NAMES if t not in ("message", "map")]
# kinds for which a google.protobuf wrapper message exists
WRAPPED_KINDS = ["bool", "int32", "int64", "uint32", "uint64", "float", "double", "string", "bytes"]

# proto3 JSON mapping: which transform class each kind needs
def spec_class(t: str) -> str:
    if t in SPEC_INT64_JSON:
        return "str"
    if t == "bytes":
        return "b64"
    if t == "enum":
        return "name"
    if t in ("float", "double"):
        return "float"
    if t == "message":
        return "to_dict"
    return "identity"


ENC_CLASSES = {"str": "str", "b64encode": "b64", "_dump_float": "float", "to_dict": "to_dict", "timestamp_to_json": "ts", "delta_to_json": "dur",
               "urlsafe_b64encode": "b64url", "standard_b64encode": "b64"}
DEC_CLASSES = {"int": "str", "b64decode": "b64", "_parse_float": "float", "from_dict": "to_dict", "isoparse": "ts", "timedelta": "dur",
               "from_string": "name", "urlsafe_b64decode": "b64url", "standard_b64decode": "b64", "delta_from_json": "dur"}


def _classes(v: Sym, table: Dict[str, str]) -> Set[str]:
    out = set()
    for c in calls(v):
        base = dotted(c[1]).split(".")[-1]
        if base in table:
            out.add(table[base])
    for t in walk(v):
        if t[0] == "a" and t[2] == "name":
            out.add("name")
    return out


def _small_helpers(mod, fn, known: Dict[str, str]) -> Dict[str, Any]:
    """module-level private helpers called from fn (small, loop-free): inlined so that their transform is visible"""
    out: Dict[str, Any] = {}
    seen = set()
    work = [fn]
    while work:
        f = work.pop()
        if id(f) in seen:
            continue
        seen.add(id(f))
        for c in ast.walk(f):
            if not isinstance(c, ast.Call):
                continue
            if isinstance(c.func, ast.Name) and c.func.id.startswith("_") and c.func.id not in known and mod.has(c.func.id):
                h = mod.func(c.func.id)
                if len(h.body) <= 8 and not any(isinstance(n, (ast.For, ast.While)) for n in ast.walk(h)):
                    out[c.func.id] = (mod, h)
                    work.append(h)
            elif isinstance(c.func, ast.Attribute) and isinstance(c.func.value, ast.Name) and c.func.value.id in ("cls", "self") and c.func.attr.startswith("_") and len(seen) < 6:
                # a private method of the same class that the function delegates to (E2 inlines it): helpers it calls count too
                for q in (k for k in mod.defs if k.endswith("." + c.func.attr) and k.count(".") == 1):
                    try:
                        work.append(mod.func(q))
                    except Exception:
                        pass
    return out


def meta_aliases() -> Dict[Sym, Sym]:
    """the metadata of the field a key belongs to, however it is looked up: table[$fname] (KeyError = unknown key) or
    table.get($fname) (None = unknown key)"""
    out: Dict[Sym, Sym] = {}
    for owner in ("cls", "self"):
        tbl = A(A(N(owner), "_betterproto"), "meta_by_field_name")
        out[("sub", tbl, N("$fname"))] = META
        out[("call", A(tbl, "get"), (N("$fname"),), ())] = META
    return out


def fname_aliases() -> Dict[Sym, Sym]:
    """the field a key belongs to: safe_snake_case(key), or that behind a lookup of the key in the per-class key table
    (the shape of this expression is decided by I3; here it is only given the name $fname)"""
    ssc = CALL(N("safe_snake_case"), N("$key"))
    out: Dict[Sym, Sym] = {ssc: N("$fname")}
    for owner in ("cls", "self"):
        get = ("call", A(A(A(N(owner), "_betterproto"), "field_name_by_key"), "get"), (N("$key"),), ())
        out[("op", "or", get, N("$fname"))] = N("$fname")
        out[("op", "or", get, ssc)] = N("$fname")
        out[get] = N("$fname")     # if-form: a hit in the table is the field name as well
    out[("op", "or", N("$fname"), N("$fname"))] = N("$fname")
    return out


def _decides_wellknown(val: Dict[Sym, bool]) -> bool:
    """the path took a branch reserved for Timestamp / Duration values: isinstance(x, datetime|timedelta) or cls == datetime|timedelta"""
    for k, v in val.items():
        if not v:
            continue
        if k[0] == "call" and k[1] == N("isinstance") and len(k[2]) == 2 and k[2][1] in (N("datetime"), N("timedelta")):
            return True
        if k[0] == "op" and k[1] == "==" and len(k) == 4 and (k[2] in (N("datetime"), N("timedelta")) or k[3] in (N("datetime"), N("timedelta"))):
            return True
    return False


def _to_dict_classes(ctx, mod, t: str, shape: str) -> Tuple[Set[str], int]:
    """transform classes on the data path into output[...] for (type, shape)"""
    fn = mod.func("Message.to_dict")
    inc = N(fn.args.args[2].arg)
    rep_atom = ("op", "is", ("sub", A(A(SELF, "_betterproto"), "default_gen"), FIELD_NAME), N("list"))
    none_atom = ("op", "is", VALUE, C(None))
    assume = {inc: True, none_atom: False, ("raises", ("AttributeError",), VALUE): False}
    # the transform applied to a value that is there: a field outside any oneof (a selected member takes the same route)
    b: Dict[Sym, Any] = {A(META, "group"): None}
    if shape in ("singular", "repeated"):
        b.update(type_binding(t))
        assume[rep_atom] = shape == "repeated"
        assume[A(META, "wraps")] = False
    elif shape == "map-value":
        b.update(type_binding("map"))
        b[A(META, "map_types")] = ("string", t)
        assume[rep_atom] = False
    elif shape == "wrapped":
        b.update(type_binding("message"))
        b[A(META, "wraps")] = t
        assume[rep_atom] = False
        assume[CALL(N("isinstance"), VALUE, N("datetime"))] = False
        assume[CALL(N("isinstance"), VALUE, N("timedelta"))] = False
    paths = interp_for(mod, bindings=b, assume=assume, inline=_small_helpers(mod, fn, ENC_CLASSES), fork_ifexp=True).run(fn)
    ctx.count(len(paths))
    # the class a message-typed field is annotated with may be asked through a constant table (`TABLE.get(cls)`): the paths
    # are then enumerated per class - datetime, timedelta, an ordinary message class
    from ..src import SymName
    looked_up = {a_ for p_ in paths for src_ in (list(p_.valuation) + [e_.data for e_ in p_.events if e_.kind == "call"]) for t_ in walk(src_)
                 if t_[0] == "call" and t_[1][0] == "a" and t_[1][2] == "get" and t_[1][1][0] == "c" and isinstance(t_[1][1][1], dict) and t_[2]
                 for a_ in [t_[2][0]] if a_[0] == "sub" and "cls_by_field" in show(a_[1])}
    if len(looked_up) == 1:
        T_ = next(iter(looked_up))
        paths = []
        for cname in ("datetime", "timedelta", "$OtherMessage"):
            b2 = dict(b)
            b2[T_] = SymName(cname)
            paths += interp_for(mod, bindings=b2, assume=assume, inline=_small_helpers(mod, fn, ENC_CLASSES), fork_ifexp=True).run(fn)
        ctx.count(len(paths))
    classes: Set[str] = set()
    n = 0
    for p in paths:
        if p.outcome == "raise":
            continue
        # only message values have a to_dict method
        if any(k[0] == "call" and k[1] == N("hasattr") and k[2][1] == C("to_dict") and v != (t == "message") for k, v in p.valuation.items()):
            continue
        # only message-typed elements can be datetime / timedelta values (Timestamp / Duration)
        if t != "message" and _decides_wellknown(p.valuation):
            continue
        path_classes: Set[str] = set()
        stored = False
        for e in p.events:
            if e.kind == "store" and e.data[0][0] == "sub":
                tgt = e.data[0][1]
                # stores into the output dict or into a fresh container that is later stored into it
                if tgt[0] in ("dictd",) or (tgt[0] == "n"):
                    n += 1
                    stored = True
                    v = e.data[1]
                    if v[0] == "dictd" and all(k[0] == "star" for k, _ in v[1]):
                        continue  # {**value}: a container copy, judged by its element stores
                    path_classes |= _classes(v, ENC_CLASSES) or {"identity"}
        if stored:
            classes |= path_classes or {"identity"}
    return classes, n


def rule_J1(ctx, rule: str = "J1") -> None:
    mod = ctx.repo.mod(M_INIT)
    ctx.analysed("Message.to_dict")
    td = mod.func("Message.to_dict")
    findings: Dict[str, List[str]] = {}
    n_ob = 0
    for shape in ("singular", "repeated", "map-value", "wrapped"):
        for t in SCALAR_TYPES + (["message"] if shape in ("singular", "repeated", "map-value") else []):
            if shape == "wrapped" and t in ("sint32", "sint64", "fixed32", "fixed64", "sfixed32", "sfixed64", "enum"):
                continue  # no wrapper exists for these kinds
            want = spec_class(t)
            got, n = _to_dict_classes(ctx, mod, t, shape)
            n_ob += 1
            name = f"to_dict[{shape}:{t}]"
            if not n:
                ctx.inconclusive(rule, name, "no store into the output found for this shape", mod.loc(td))
                continue
            ok = (want in got) if want != "identity" else (got <= {"identity"})
            if want == "to_dict" and (got & {"to_dict", "ts", "dur"}):
                ok = True
            if ok:
                ctx.proved(rule, name, mod.loc(td), ",".join(sorted(got)))
            else:
                findings.setdefault(shape, []).append(t)
                ctx.refuted(rule, name, f"got={','.join(sorted(got))};want={want}", mod.loc(td),
                            f"to_dict emits a {t} value in {shape} position through {sorted(got)}; the proto3 JSON mapping requires '{want}' "
                            f"({'the branch never consults the element type' if shape in ('map-value', 'wrapped') else 'wrong or missing transform'})",
                            f"M(x=...).to_json() with a {shape} {t}")
    ctx.floor(rule, "type x shape", n_ob, 50)


def _from_dict_classes(ctx, mod, t: str, shape: str) -> Set[str]:
    fn = mod.func("Message._from_dict_init")
    b: Dict[Sym, Any] = {}
    al = dict(meta_aliases())
    value = N("$jvalue")
    islist = CALL(N("isinstance"), value, N("list"))
    assume: Dict[Sym, bool] = {("op", "is", value, C(None)): False, ("op", "is", META, C(None)): False}
    if shape in ("singular", "repeated"):
        b[A(META, "proto_type")] = t
        b[A(META, "map_types")] = None
        assume[islist] = shape == "repeated"
        assume[A(META, "wraps")] = False
    elif shape == "map-value":
        b[A(META, "proto_type")] = "map"
        b[A(META, "map_types")] = ("string", t)
        assume[islist] = False
    elif shape == "wrapped":
        b[A(META, "proto_type")] = "message"
        b[A(META, "map_types")] = None
        b[A(META, "wraps")] = t
        assume[islist] = False

    def roles(it: Sym, depth: int):
        if it[0] == "call" and it[1][0] == "a" and it[1][2] == "items" and depth == 0:
            return [N("$key"), value]
        return None

    al.update(fname_aliases())
    i = Interp(mod, bindings=b, aliases=al, loop_roles=roles, assume=assume, fork_ifexp=True, inline=_small_helpers(mod, fn, DEC_CLASSES))
    paths = i.run(fn)
    ctx.count(len(paths))
    classes: Set[str] = set()
    for p in paths:
        if p.outcome == "raise" or any(k[0] == "raises" and v for k, v in p.valuation.items()):
            continue
        if t != "message" and _decides_wellknown(p.valuation):
            continue
        for e in p.events:
            if e.kind == "store" and e.data[0][0] == "sub" and e.data[0][2] == N("$fname"):
                v = e.data[1]
                cs = _classes(v, DEC_CLASSES)
                if v == value:
                    cs = {"identity"}
                classes |= cs or {"identity"}
    return classes


def rule_J2(ctx) -> None:
    """inverse partition: to_dict and _from_dict_init pair inverse transforms for every type x shape"""
    mod = ctx.repo.mod(M_INIT)
    ctx.analysed("Message._from_dict_init")
    fd = mod.func("Message._from_dict_init")
    n = 0
    for shape in ("singular", "repeated", "map-value", "wrapped"):
        for t in SCALAR_TYPES + ["message"]:
            if shape == "wrapped" and t not in WRAPPED_KINDS:
                continue
            enc, _ = _to_dict_classes(ctx, mod, t, shape)
            dec = _from_dict_classes(ctx, mod, t, shape)
            n += 1
            name = f"inverse[{shape}:{t}]"
            e = {("to_dict" if c in ("ts", "dur") else c) for c in enc}
            d = {("to_dict" if c in ("ts", "dur") else c) for c in dec}
            # enum: decoding accepts both names (str) and numbers -> {'name','identity'} pairs with {'name'}
            if t == "enum":
                # enums are open: both directions also pass plain numbers through
                d = d - {"identity"} if "name" in d else d
                e = e - {"identity"} if "name" in e else e
            if e == d:
                ctx.proved("J2", name, mod.loc(fd), ",".join(sorted(e)))
            else:
                ctx.refuted("J2", name, f"enc={','.join(sorted(enc))};dec={','.join(sorted(dec))}", mod.loc(fd),
                            f"to_dict encodes a {shape} {t} through {sorted(enc)} but _from_dict_init decodes it through {sorted(dec)}: the two directions are not inverse",
                            f"M.from_dict(M(x=...).to_dict()) with a {shape} {t}")
    ctx.floor("J2", "type x shape", n, 54)


# proto3: map keys are any integral or string type (no floats, bytes, enums, messages)
MAP_KEY_KINDS = ["int32", "int64", "uint32", "uint64", "sint32", "sint64", "fixed32", "fixed64", "sfixed32", "sfixed64", "bool", "string"]


def _key_exprs(v: Sym) -> List[Sym]:
    """key expressions of the (possibly nested) dict comprehensions that build v, outermost first"""
    out: List[Sym] = []
    def rec(t: Sym):
        if isinstance(t, tuple) and t and t[0] == "call" and t[1] == N("$dictcomp") and len(t[2]) >= 2:
            kv = t[2][0]
            if isinstance(kv, tuple) and kv and kv[0] == "tuple" and len(kv[1]) == 2:
                out.append(kv[1][0])
            for a in t[2][1:]:
                rec(a)
        elif isinstance(t, tuple):
            for x in t:
                if isinstance(x, tuple):
                    rec(x)
    rec(v)
    return out


def rule_J6(ctx, rule: str = "J6") -> None:
    """JSON object keys are text: _from_dict_init must turn the keys of a map back into the declared key kind
    (int(...) for the integral kinds, a comparison with 'true' for bool, unchanged for string)"""
    mod = ctx.repo.mod(M_INIT)
    fn = mod.func("Message._from_dict_init")
    value = N("$jvalue")
    n = 0
    for kt in MAP_KEY_KINDS:
        b = {A(META, "proto_type"): "map", A(META, "map_types"): (kt, "string")}
        paths = _fdi_interp(mod, bindings=b, assume={("op", "is", value, C(None)): False}, fork_ifexp=True,
                            inline=_small_helpers(mod, fn, DEC_CLASSES)).run(fn)
        ctx.count(len(paths))
        got: Set[str] = set()
        seen = 0
        for p in paths:
            if p.outcome == "raise" or any(k[0] == "raises" and v for k, v in p.valuation.items()) or _decides_wellknown(p.valuation):
                continue
            for e in p.events:
                if e.kind == "store" and e.data[0][0] == "sub" and e.data[0][2] == N("$fname"):
                    seen += 1
                    v = e.data[1]
                    # the incoming key is text on this path unless the path decided otherwise
                    text_key = not any(k[0] == "call" and k[1] == N("isinstance") and k[2][1] == N("str") and not val for k, val in p.valuation.items())
                    if not text_key:
                        continue
                    cls = "identity"
                    for ke in _key_exprs(v):
                        if any(dotted(c[1]) == "int" for c in calls(ke)):
                            cls = "int"
                        elif any(t_[0] == "op" and t_[1] == "==" and (C("true") in t_[2:]) for t_ in walk(ke)) or \
                                any(t_[0] == "op" and t_[1] == "in" and t_[3][0] == "c" and isinstance(t_[3][1], (tuple, list, set, frozenset)) and "true" in t_[3][1] for t_ in walk(ke)):
                            cls = "bool"
                    got.add(cls)
        n += 1
        name = f"from_dict[map-key:{kt}]"
        want = "identity" if kt == "string" else ("bool" if kt == "bool" else "int")
        if not seen:
            ctx.inconclusive(rule, name, "no store of a decoded map found", mod.loc(fn))
        elif got == {want}:
            ctx.proved(rule, name, mod.loc(fn), want)
        else:
            ctx.refuted(rule, name, f"got={','.join(sorted(got))};want={want}", mod.loc(fn),
                        f"the keys of a map<{kt}, ...> read from JSON are decoded through {sorted(got)}; JSON object keys are always text, so they must be turned back into "
                        f"{'bool' if kt == 'bool' else 'int'} values or the map compares unequal to the original and cannot be encoded",
                        f"M().from_json(M(m={{1: 'x'}}).to_json()) for a map<{kt},string>")
    ctx.floor(rule, "map key kinds", n, 12)
    rule_J6b(ctx, rule)


def rule_K1(ctx) -> None:
    mod = ctx.repo.mod(M_INIT)
    ref = Reference()
    consts, origin = ref.json_constants()
    ctx.oracle(origin)
    for k, v in consts.items():
        if k not in mod.consts:
            raise AnalysisError(f"constant {k} vanished")
        if mod.consts[k] == v:
            ctx.proved("K1", f"const[{k}]", M_INIT)
        else:
            ctx.refuted("K1", f"const[{k}]", f"{mod.consts[k]!r}!={v!r}", M_INIT, f"{k} = {mod.consts[k]!r}; the proto3 JSON mapping (and the reference) use {v!r}", "M(f=float('inf')).to_json()")
    # the special spellings are what _dump_float emits for the three IEEE specials and what _parse_float reads back: both
    # functions are evaluated per path and the path taken by each distinguished input is selected with the analyser's
    # evaluator of symbolic terms (vt.concrete)
    from .. import concrete
    import math as _math
    specials = {"INFINITY": _math.inf, "NEG_INFINITY": -_math.inf, "NAN": _math.nan}
    if set(specials) != set(consts):
        raise AnalysisError("reference JSON constants changed")

    mod_env = {k: v for k, v in mod.consts.items() if isinstance(v, (str, int, float)) and type(v).__name__ not in ("SymName", "SymCall", "SymLambda")}

    def taken(paths, env):
        out = []
        for p in paths:
            try:
                if all(bool(concrete.ev(k, env)) == bool(v) for k, v in p.valuation.items()):
                    out.append(p)
            except concrete.Unknown as e:
                return None, str(e)
        return out, ""

    for q in ("_dump_float", "_parse_float"):
        fn = mod.func(q)
        params = [a.arg for a in fn.args.args]
        n_defaults = len(fn.args.defaults)
        if len(params) - n_defaults > 1 or not params:
            raise AnalysisError(f"{q} no longer takes exactly one required argument")
        # further parameters: one that names the proto type is tried with both floating types, any other keeps its default
        extra_envs: List[Dict[str, Any]] = [{}]
        for prm, dflt in zip(params[len(params) - n_defaults:], fn.args.defaults):
            if prm == params[0]:
                continue
            if "type" in prm.lower():
                extra_envs = [dict(e_, **{prm: t_}) for e_ in extra_envs for t_ in ("float", "double")]
            else:
                try:
                    dv = fold(dflt, mod.consts)
                except _Unfoldable:
                    raise AnalysisError(f"{q}: default of {prm} does not fold")
                extra_envs = [dict(e_, **{prm: dv}) for e_ in extra_envs]
        paths = Interp(mod, fork_ifexp=True).run(fn)
        ctx.count(len(paths))
        if q == "_dump_float":
            # besides the specials: both zeros, whole numbers, a value beyond 2**53, and single-precision values whose shortest
            # decimal form needs nine digits (what is emitted must read back as the very same float)
            cases = [(f"{k}", v, consts[k]) for k, v in specials.items()] + [("finite", 1.5, 1.5), ("zero", 0.0, 0.0), ("negative zero", -0.0, -0.0), ("negative", -2.25, -2.25), ("int", 3, 3),
                                                                             ("whole", 7.0, 7.0), ("large", 2.0 ** 100, 2.0 ** 100), ("float32 nine digits", -103.21731567382812, -103.21731567382812),
                                                                             ("float32 max", 3.4028234663852886e+38, 3.4028234663852886e+38), ("tenth", 0.1, 0.1)]
        else:
            cases = [(f"{k}", consts[k], v) for k, v in specials.items()] + [("number", 1.5, 1.5), ("numeric-string", "2.5", 2.5)]
        cases = [(label + (f" [{', '.join(f'{k_}={v_}' for k_, v_ in e_.items())}]" if e_ else ""), arg, want, e_) for label, arg, want in cases for e_ in extra_envs]
        bad = []
        unknown = []
        for label, arg, want, e_ in cases:
            env = dict(mod_env)
            env.update(e_)
            env[params[0]] = arg
            sel, why = taken(paths, env)
            if sel is None:
                unknown.append(f"{label}: {why}")
                continue
            if len(sel) != 1:
                unknown.append(f"{label}: {len(sel)} paths selected")
                continue
            p = sel[0]
            if p.outcome != "return" or p.value is None:
                bad.append((label, arg, f"<{p.outcome}>", want))
                continue
            try:
                got = concrete.ev(p.value, env)
            except concrete.Unknown as e:
                unknown.append(f"{label}: result {show(p.value)} ({e})")
                continue
            if isinstance(want, float) and _math.isfinite(want) and isinstance(got, (int, float)) and not isinstance(got, bool):
                # a finite number: the emitted number denotes the same value (a whole number may be printed without fraction),
                # and the sign of zero survives
                try:
                    if "float" in e_.values():
                        # a single-precision field: what is emitted has to read back as the same float32
                        import struct as _struct
                        ok = _struct.pack("<f", float(got)) == _struct.pack("<f", want)
                    else:
                        ok = float(got) == want and _math.copysign(1.0, float(got)) == _math.copysign(1.0, want)
                except (OverflowError, _struct.error if "float" in e_.values() else OverflowError):
                    ok = False
            else:
                ok = concrete.same_float(got, want) if isinstance(want, float) else (type(got) is type(want) and got == want)
            if not ok:
                bad.append((label, arg, got, want))
        name = f"{q}:special-names"
        if bad:
            label, arg, got, want = bad[0]
            ctx.refuted("K1", name, f"{label}->{got!r}", mod.loc(fn), f"{q}({arg!r}) yields {got!r}; the proto3 JSON mapping requires {want!r} ({len(bad)} of {len(cases)} distinguished inputs differ)",
                        f"{q}({arg!r})")
        elif unknown:
            ctx.inconclusive("K1", name, "; ".join(unknown)[:300], mod.loc(fn))
        else:
            ctx.proved("K1", name, mod.loc(fn), f"{len(cases)} distinguished inputs over {len(paths)} paths")
    i64 = set(mod.consts.get("INT_64_TYPES", ()))
    if i64 == SPEC_INT64_JSON:
        ctx.proved("K1", "INT_64_TYPES", M_INIT)
    else:
        ctx.refuted("K1", "INT_64_TYPES", f"diff={sorted(i64 ^ SPEC_INT64_JSON)}", M_INIT, f"INT_64_TYPES differs from the five 64-bit kinds by {sorted(i64 ^ SPEC_INT64_JSON)}: those are (not) emitted as JSON strings",
                    "M(x=2**60).to_json() for the affected kind")
    td = mod.func("Message.to_dict")
    # (the emitter and the module-level helpers it hands scalars to)
    scope_ = [td]
    for _ in range(2):
        for f_ in list(scope_):
            for c_ in ast.walk(f_):
                if isinstance(c_, ast.Call) and isinstance(c_.func, ast.Name) and mod.has(c_.func.id) and isinstance(mod.defs[c_.func.id][0], ast.FunctionDef) \
                        and all(mod.func(c_.func.id) is not x for x in scope_):
                    scope_.append(mod.func(c_.func.id))
    b64 = {(n.func.id if isinstance(n.func, ast.Name) else n.func.attr) for f_ in scope_ for n in ast.walk(f_) if isinstance(n, ast.Call)
           and isinstance(n.func, (ast.Name, ast.Attribute)) and "b64" in (n.func.id if isinstance(n.func, ast.Name) else n.func.attr)}
    if b64 and b64 <= {"b64encode", "base64.b64encode", "standard_b64encode", "base64.standard_b64encode"}:
        ctx.proved("K1", "bytes:standard-base64", mod.loc(td))
    else:
        ctx.refuted("K1", "bytes:standard-base64", ",".join(sorted(b64)) or "none", mod.loc(td), f"bytes are emitted with {sorted(b64)}; canonical JSON uses standard base64 with padding", "M(b=b'\\xfb\\xff').to_json()")
    # Duration: suffix literal "s" on every return of the emitter; the parser strips exactly one character
    de = mod.func("_Duration.delta_to_json")
    paths = Interp(mod).run(de)
    ctx.count(len(paths))
    bad = []
    for p in paths:
        if p.outcome != "return" or p.value is None:
            continue
        v = p.value
        ok = (v[0] == "fstr" and v[1][-1] == C("s")) or (v[0] == "c" and isinstance(v[1], str) and v[1].endswith("s")) \
            or (v[0] == "op" and v[1] == "+" and v[-1] == C("s"))
        if not ok:
            bad.append(show(v))
    if bad:
        ctx.refuted("K1", "Duration:s-suffix", "missing", mod.loc(de), f"delta_to_json can return {bad[0]} without the literal 's' suffix")
    else:
        ctx.proved("K1", "Duration:s-suffix", mod.loc(de))
    fdi = mod.func("Message._from_dict_init")
    scopes = [fdi] + [f for fs in mod.methods("_Duration").values() for f in fs if "json" in f.name and f.name != "delta_to_json"]
    strips = [ast.unparse(n) for fn_ in scopes for n in ast.walk(fn_) if isinstance(n, ast.Subscript) and isinstance(n.slice, ast.Slice) and n.slice.upper is not None
              and n.slice.lower is None and isinstance(n.slice.upper, ast.UnaryOp) and isinstance(n.slice.upper.op, ast.USub)]
    if strips and all(s.endswith("[:-1]") for s in strips):
        ctx.proved("K1", "Duration:parser-strips-one-char", mod.loc(fdi))
    elif not strips:
        ctx.inconclusive("K1", "Duration:parser-strips-one-char", "no suffix-stripping slice found in _from_dict_init (delegated?)", mod.loc(fdi))
    else:
        ctx.refuted("K1", "Duration:parser-strips-one-char", ",".join(strips), mod.loc(fdi), f"the Duration parser strips {strips} instead of exactly the trailing 's'")


def rule_K2(ctx) -> None:
    mod = ctx.repo.mod(M_INIT)
    for q in ("Message.to_dict", "Message.to_json", "Message.to_pydict"):
        fn = mod.func(q)
        args = fn.args
        names = [a.arg for a in args.args]
        defaults = dict(zip(names[len(names) - len(args.defaults):], args.defaults))
        d = defaults.get("casing")
        if d is not None and ast.unparse(d) == "Casing.CAMEL":
            ctx.proved("K2", f"{q.split('.')[-1]}:default-casing-camel", mod.loc(fn))
        else:
            ctx.refuted("K2", f"{q.split('.')[-1]}:default-casing-camel", ast.unparse(d) if d is not None else "none", mod.loc(fn),
                        "the default key casing is not Casing.CAMEL: JSON names must be lowerCamelCase by default", "M(foo_bar=1).to_json()")
    cas = mod.cls("Casing")
    binding = {t.id: ast.unparse(st.value) for st in cas.body if isinstance(st, ast.Assign) for t in st.targets if isinstance(t, ast.Name)}
    if binding.get("CAMEL") == "camel_case" and binding.get("SNAKE") == "snake_case":
        ctx.proved("K2", "Casing:bindings", mod.loc(cas))
    else:
        ctx.refuted("K2", "Casing:bindings", str(binding), mod.loc(cas), f"Casing members are bound to {binding}")
    # from_dict maps keys back with safe_snake_case
    for q in ("Message._from_dict_init", "Message.from_pydict"):
        fn = mod.func(q)
        from .c19 import reader_lookup
        _, fbs, _, why = reader_lookup(ctx, mod, q)
        if why:
            ctx.inconclusive("K2", f"{q.split('.')[-1]}:keys-through-safe_snake_case", why, mod.loc(fn))
        elif any("safe_snake_case($key)" in f for f in fbs):
            ctx.proved("K2", f"{q.split('.')[-1]}:keys-through-safe_snake_case", mod.loc(fn))
        else:
            ctx.refuted("K2", f"{q.split('.')[-1]}:keys-through-safe_snake_case", "missing", mod.loc(fn), "incoming keys are not normalised with safe_snake_case: camelCase JSON names are not mapped back to fields")


def _float_sources(fn: ast.AST) -> Set[str]:
    """names/expressions of float type inside fn: total_seconds() results, true division, float literals"""
    out = set()
    for n in ast.walk(fn):
        if isinstance(n, ast.Call) and isinstance(n.func, ast.Attribute) and n.func.attr == "total_seconds":
            out.add(ast.unparse(n))
    return out


def rule_K3(ctx, rule: str = "K3") -> None:
    """no repr-formatting of floats in the canonical JSON emitters"""
    mod = ctx.repo.mod(M_INIT)
    for q in ("_Duration.delta_to_json", "_Timestamp.timestamp_to_json"):
        fn = mod.func(q)
        ctx.analysed(q)
        floaty: Set[str] = set()
        # float taint: total_seconds(), true division, multiplication/modulo with a float literal
        assigns = [n for n in ast.walk(fn) if isinstance(n, ast.Assign) and len(n.targets) == 1 and isinstance(n.targets[0], ast.Name)]

        def is_float(e: ast.AST) -> bool:
            if isinstance(e, ast.Constant):
                return isinstance(e.value, float)
            if isinstance(e, ast.Name):
                return e.id in floaty
            if isinstance(e, ast.Call):
                f = ast.unparse(e.func)
                if f.endswith(".total_seconds") or f == "float":
                    return True
                if f in ("int", "round", "len", "str", "math.floor", "math.ceil", "math.trunc", "divmod"):
                    return False
                return False
            if isinstance(e, ast.BinOp):
                if isinstance(e.op, ast.Div):
                    return True
                return is_float(e.left) or is_float(e.right)
            if isinstance(e, ast.UnaryOp):
                return is_float(e.operand)
            return False

        changed = True
        while changed:
            changed = False
            for a in assigns:
                if a.targets[0].id not in floaty and is_float(a.value):
                    floaty.add(a.targets[0].id)
                    changed = True
        bad = []
        for n in ast.walk(fn):
            if isinstance(n, ast.Call) and isinstance(n.func, ast.Name) and n.func.id in ("str", "repr") and n.args and is_float(n.args[0]):
                bad.append((n, f"{n.func.id}({ast.unparse(n.args[0])})"))
            if isinstance(n, ast.FormattedValue) and is_float(n.value):
                spec = ast.unparse(n.format_spec) if n.format_spec is not None else ""
                fixed = any(spec.strip("f'\"").endswith(c) for c in ("f", "d")) and "e" not in spec.lower() and "g" not in spec.lower()
                if not fixed:
                    bad.append((n, "{" + ast.unparse(n.value) + (":" + spec if spec else "") + "}"))
            if isinstance(n, ast.Call) and isinstance(n.func, ast.Attribute) and n.func.attr == "format" and any(is_float(a) for a in n.args):
                bad.append((n, ast.unparse(n)))
        name = f"{q.split('.')[-1]}:no-float-repr"
        if bad:
            ctx.refuted(rule, name, "float-repr", mod.loc(bad[0][0]),
                        f"a float reaches repr-style formatting ({bad[0][1]}): float repr switches to exponent notation below 1e-4 (and loses digits above 2**53), which is not the decimal-seconds / RFC 3339 form",
                        "delta_to_json(timedelta(microseconds=10)) == '1e-05s'")
        else:
            ctx.proved(rule, name, mod.loc(fn))
    # platform-dependent year formatting
    ts = mod.func("_Timestamp.timestamp_to_json")
    st = [n for n in ast.walk(ts) if isinstance(n, ast.Call) and isinstance(n.func, ast.Attribute) and n.func.attr == "strftime"
          and n.args and isinstance(n.args[0], ast.Constant) and "%Y" in str(n.args[0].value)]
    if st:
        ctx.refuted(rule, "timestamp_to_json:four-digit-year", "strftime-%Y", mod.loc(st[0]),
                    "strftime('%Y') does not zero-pad years below 1000 on glibc; RFC 3339 needs four digits (isoformat() guarantees them)",
                    "timestamp_to_json(datetime(999, 12, 31, tzinfo=timezone.utc))")
    else:
        ctx.proved(rule, "timestamp_to_json:four-digit-year", mod.loc(ts))


K3B_MICROS = [0, 1, 7, 10, 999, 1000, 1001, 5000, 45000, 100000, 120000, 123456, 500000, 999000, 999999]


def rule_K3b(ctx, rule: str = "K3b") -> None:
    """the fractional-second groups of the Timestamp text, evaluated at distinguished microsecond values (none, whole
    milliseconds, a sub-millisecond part below 100 that needs its leading zeros, both): the path each value takes is selected
    with the analyser's evaluator and the text compared with the RFC 3339 form - 0, 3 or 6 digits, each group zero-padded"""
    from .. import concrete
    from ..sym import walk
    mod = ctx.repo.mod(M_INIT)
    fn = mod.func("_Timestamp.timestamp_to_json")
    ctx.analysed("_Timestamp.timestamp_to_json")
    params = [a.arg for a in fn.args.args if a.arg not in ("self", "cls")]
    name = "timestamp_to_json:fraction-at-distinguished-microseconds"
    if len(params) != 1:
        ctx.inconclusive(rule, name, f"parameters {params}", mod.loc(fn))
        return
    paths = Interp(mod, fork_ifexp=True).run(fn)
    ctx.count(len(paths))
    bad = unknown = None
    sentinel = object()
    for aware in (False, True):
        for us in K3B_MICROS:
            sel, why = [], None
            for p in paths:
                env: Dict[Any, Any] = {}
                for root in list(p.valuation) + ([p.value] if p.value is not None else []):
                    for t in walk(root):
                        if t[0] == "a" and t[2] == "microsecond":
                            env[t] = us
                        elif t[0] == "a" and t[2] == "tzinfo":
                            env[t] = sentinel if aware else None
                        elif t[0] == "a" and t[2] == "utc":
                            env[t] = sentinel
                        elif t[0] == "call" and t[1][0] == "a" and t[1][2] == "isoformat" and not t[2]:
                            env[t] = "D"
                        elif t[0] == "call" and t[1][0] == "a" and t[1][2] == "utcoffset":
                            env[t] = sentinel if aware else None
                try:
                    if all(bool(concrete.ev(k, env)) == bool(v) for k, v in p.valuation.items() if k[0] != "raises"):
                        sel.append((p, env))
                except concrete.Unknown as e:
                    why = str(e)
                    break
            if why is not None or len(sel) != 1:
                unknown = unknown or f"microsecond={us}: {why or str(len(sel)) + ' paths selected'}"
                continue
            p, env = sel[0]
            want = "D" + ("" if us == 0 else f".{us // 1000:03d}" if us % 1000 == 0 else f".{us:06d}") + "Z"
            if p.outcome != "return" or p.value is None:
                bad = bad or (us, f"<{p.outcome}>", want)
                continue
            try:
                got = concrete.ev(p.value, env)
            except concrete.Unknown as e:
                unknown = unknown or f"microsecond={us}: text not evaluable ({e})"
                continue
            if got != want:
                bad = bad or (us, got, want)
    if bad:
        us, got, want = bad
        ctx.refuted(rule, name, f"{us}->{got}", mod.loc(fn), f"for a datetime with microsecond={us} the text is {str(got).replace('D', '<date>T<time>')!r}; RFC 3339 / proto3 JSON needs "
                    f"{want.replace('D', '<date>T<time>')!r}: every fractional group keeps its leading zeros, otherwise the digits denote another instant (or the text does not parse)",
                    f"M(ts=datetime(2020, 1, 1, microsecond={us}, tzinfo=timezone.utc)).to_json()")
    elif unknown:
        ctx.inconclusive(rule, name, unknown[:300], mod.loc(fn))
    else:
        ctx.proved(rule, name, mod.loc(fn), f"{len(K3B_MICROS)} microsecond values x naive/aware over {len(paths)} paths")


def rule_K3c(ctx, rule: str = "K3c") -> None:
    """the Timestamp text denotes the instant the datetime denotes, whatever its UTC offset: timestamp_to_json evaluated (terms of
    E2, the analyser's evaluator, no repository code run) at aware datetimes with the offsets +02:00, -05:30, +00:00 and at one
    with a fraction; the text must be the RFC 3339 form of the same instant in UTC ('Z')"""
    import datetime as _dt
    from .. import concrete
    mod = ctx.repo.mod(M_INIT)
    fn = mod.func("_Timestamp.timestamp_to_json")
    ctx.analysed("_Timestamp.timestamp_to_json")
    params = [a.arg for a in fn.args.args if a.arg not in ("self", "cls")]
    name = "timestamp_to_json:instant-at-distinguished-offsets"
    if len(params) != 1:
        ctx.inconclusive(rule, name, f"parameters {params}", mod.loc(fn))
        return
    paths = Interp(mod, fork_ifexp=True).run(fn)
    ctx.count(len(paths))
    inputs = [_dt.datetime(2020, 1, 1, 0, 0, 0, tzinfo=_dt.timezone(_dt.timedelta(hours=2))),
              _dt.datetime(1999, 12, 31, 22, 15, 7, 250000, tzinfo=_dt.timezone(_dt.timedelta(hours=-5, minutes=-30))),
              _dt.datetime(2020, 6, 1, 12, 0, 0, tzinfo=_dt.timezone.utc),
              _dt.datetime(1970, 1, 1, 1, 0, 0, 1, tzinfo=_dt.timezone(_dt.timedelta(hours=1)))]
    bad = unknown = None
    for d in inputs:
        env = {N(params[0]): d, params[0]: d}
        sel, why = [], None
        for p in paths:
            try:
                if all(bool(concrete.ev(k, env)) == bool(v) for k, v in p.valuation.items() if k[0] != "raises"):
                    sel.append(p)
            except concrete.Unknown as e:
                why = str(e)
                break
        if why is not None or len(sel) != 1:
            unknown = unknown or f"{d.isoformat()}: {why or str(len(sel)) + ' paths selected'}"
            continue
        p = sel[0]
        u = d.astimezone(_dt.timezone.utc)
        us = u.microsecond
        want = u.replace(tzinfo=None, microsecond=0).isoformat() + ("" if us == 0 else f".{us // 1000:03d}" if us % 1000 == 0 else f".{us:06d}") + "Z"
        if p.outcome != "return" or p.value is None:
            bad = bad or (d, f"<{p.outcome}>", want)
            continue
        try:
            got = concrete.ev(p.value, env)
        except concrete.Unknown as e:
            unknown = unknown or f"{d.isoformat()}: text not evaluable ({e})"
            continue
        if got != want:
            bad = bad or (d, got, want)
    if bad:
        d, got, want = bad
        ctx.refuted(rule, name, f"{d.isoformat()}->{got}", mod.loc(fn), f"for the datetime {d.isoformat()} the text is {got!r}; the same instant in RFC 3339 / proto3 JSON is {want!r}: "
                    "the text (valid as it is) denotes another instant than the one bytes(m) carries - the wall-clock time was relabelled as UTC instead of converted",
                    f"M(ts=datetime.fromisoformat({d.isoformat()!r})).to_json() read by google.protobuf.json_format")
    elif unknown:
        ctx.inconclusive(rule, name, unknown[:300], mod.loc(fn))
    else:
        ctx.proved(rule, name, mod.loc(fn), f"{len(inputs)} aware datetimes over {len(paths)} paths")


# ---------------------------------------------------------------------------
# J4-J6: decoder discipline of _from_dict_init; J5: JSON presence table of to_dict


def _fdi_interp(mod, **kw):
    al = {**meta_aliases(), **fname_aliases()}
    value = N("$jvalue")

    def roles(it: Sym, depth: int):
        if it[0] == "call" and it[1][0] == "a" and it[1][2] == "items" and depth == 0:
            return [N("$key"), value]
        return None

    assume = dict(kw.pop("assume", None) or {})
    assume.setdefault(("op", "is", META, C(None)), False)      # a known field: its metadata exists
    return Interp(mod, aliases=al, loop_roles=roles, assume=assume, **kw)


def rule_J4(ctx) -> None:
    """(a) a key is skipped only when it is unknown or its value is None; (b) the field is looked up under
    safe_snake_case(key) on every path; (c) repeated values are decoded element by element"""
    mod = ctx.repo.mod(M_INIT)
    fn = mod.func("Message._from_dict_init")
    value = N("$jvalue")
    n = 0
    skip_bad = None
    name_bad = None
    for t in ("int32", "string", "message", "enum", "bool"):
        paths = _fdi_interp(mod, bindings={A(META, "proto_type"): t, A(META, "map_types"): None}, fork_ifexp=True).run(fn)
        ctx.count(len(paths))
        for p in paths:
            if p.outcome == "raise":
                continue
            n += 1
            stores = [e for e in p.events if e.kind == "store" and e.data[0][0] == "sub" and e.data[0][1][0] in ("dictd", "n") and e.loops]
            unknown_key = any(k[0] == "raises" and v for k, v in p.valuation.items()) or any(
                k[0] == "op" and k[1] in ("in", "is") and v is (k[1] == "is") and "meta_by_field_name" in show(k) for k, v in p.valuation.items())
            none_val = p.valuation.get(("op", "is", value, C(None))) is True
            if not stores and not unknown_key and not none_val:
                skip_bad = (t, p)
            for e in stores:
                if e.data[0][2] != N("$fname"):
                    name_bad = (show(e.data[0][2]), p)
    if skip_bad:
        t, p = skip_bad
        ctx.refuted("J4", "_from_dict_init:skips-only-None", val_text(p.valuation)[:120], mod.loc(fn),
                    f"a present key with a non-None value is dropped on the path {val_text(p.valuation)}: falsy values (0, empty string, false, {{}}) carry presence for oneof members, "
                    "proto3 optional fields and empty sub-messages", "M.from_dict({'optCount': 0}) / {'child': {}}")
    else:
        ctx.proved("J4", "_from_dict_init:skips-only-None", mod.loc(fn), f"{n} paths")
    if name_bad:
        ctx.refuted("J4", "_from_dict_init:field-name-through-safe_snake_case", name_bad[0][:60], mod.loc(fn),
                    f"on the path {val_text(name_bad[1].valuation)} the field is looked up under {name_bad[0]} instead of safe_snake_case(key): keys that are proto names or cased names "
                    "of fields whose Python name differs are silently dropped", "from_dict({'sha256sum': ...}) for a field generated as sha256_sum")
    else:
        ctx.proved("J4", "_from_dict_init:field-name-through-safe_snake_case", mod.loc(fn))
    # (c) element-wise decoding: no constant-index peek into the incoming value
    peeks = [n_ for n_ in ast.walk(fn) if isinstance(n_, ast.Subscript) and isinstance(n_.value, ast.Name) and n_.value.id == "value"
             and isinstance(n_.slice, ast.Constant) and isinstance(n_.slice.value, int)]
    if peeks:
        ctx.refuted("J4", "_from_dict_init:element-wise", ast.unparse(peeks[0]), mod.loc(peeks[0]),
                    f"how a repeated value is decoded is decided from one element ({ast.unparse(peeks[0])}): a list mixing enum names and plain numbers (which to_dict emits for open enums) is decoded wrongly",
                    "from_dict({'colours': [99, 'RED']})")
    else:
        ctx.proved("J4", "_from_dict_init:element-wise", mod.loc(fn))


def rule_J9(ctx, rule: str = "J9") -> None:
    """enums are open on the dict / JSON side as on the wire: what _from_dict_init makes of a *number* found for an enum field is
    the number itself or Enum.try_value(number) - never the closed constructor `EnumClass(number)`, which raises ValueError for a
    number the Python class does not define although to_dict emits exactly such numbers as they are"""
    mod = ctx.repo.mod(M_INIT)
    fn = mod.func("Message._from_dict_init")
    ctx.analysed("Message._from_dict_init")
    # the locals that hold the enum class of the field: bound from cls_by_field / _cls_for / _type_hint ...
    paths = _fdi_interp(mod, bindings={A(META, "proto_type"): "enum", A(META, "map_types"): None}, fork_ifexp=True).run(fn)
    ctx.count(len(paths))
    bad = None
    n = 0
    for p in paths:
        for e in p.events:
            if e.kind != "call":
                continue
            f = e.data[1]
            # a call of a class looked up for the field (`<table>[..](x)` / `<local bound to it>(x)`), with the incoming value
            text = show(f)
            if ("cls_by_field" in text or "_cls_for" in text or "_type_hint" in text) and f[0] in ("sub", "call", "n") and len(e.data[2]) == 1 and not e.data[3] \
                    and "$jvalue" in show(e.data[2][0]):
                n += 1
                bad = bad or (e, p)
    # syntactic companion: a local assigned from the class table and then called with the value
    cls_locals = {t.id for a in ast.walk(fn) if isinstance(a, ast.Assign) for t in a.targets if isinstance(t, ast.Name)
                  and any(isinstance(x, ast.Attribute) and x.attr in ("cls_by_field",) for x in ast.walk(a.value)) or
                  (isinstance(a, ast.Assign) and isinstance(a.value, ast.Call) and "_cls_for" in ast.unparse(a.value.func) and any(isinstance(t2, ast.Name) and t2.id == t.id for t2 in a.targets))}
    strict = [c for c in ast.walk(fn) if isinstance(c, ast.Call) and isinstance(c.func, ast.Name) and c.func.id in cls_locals and "enum" in c.func.id.lower()
              and len(c.args) == 1 and not c.keywords]
    name = "_from_dict_init:enum-numbers-stay-open"
    if strict:
        c = strict[0]
        ctx.refuted(rule, name, ast.unparse(c)[:60], mod.loc(c), f"`{ast.unparse(c)}` converts a number found for an enum field with the closed constructor of the enum class: a number the class "
                    "does not define raises ValueError, yet to_dict / to_json emit exactly such numbers (received from a newer peer) as plain numbers - the dict / JSON round trip fails",
                    "m = M().parse(<enum field = 7, undefined>); M().from_dict(m.to_dict())")
    elif bad:
        e, p = bad
        ctx.refuted(rule, name, show(e.data)[:60], f"{mod.rel}:{e.line}", f"`{show(e.data)}` applies the field's class to the incoming value: the closed enum constructor raises for undefined numbers")
    else:
        ctx.proved(rule, name, mod.loc(fn), "numbers found for enum fields are kept (or go through try_value)")


def rule_J10(ctx, rule: str = "J10") -> None:
    """the values of an enum-valued map are rendered as enum values however they are represented: on every path of to_dict that
    stores a value of such a map, the value went through _enum_to_json with the class the field declares - not only when it
    happens to be an Enum instance (the pydantic dataclasses validate enum fields as plain ints; a branch that asks
    isinstance(v, Enum) emits the number there and the name in the standard flavour)"""
    mod = ctx.repo.mod(M_INIT)
    fn = mod.func("Message.to_dict")
    ctx.analysed("Message.to_dict")
    inc = N(fn.args.args[2].arg)
    b: Dict[Sym, Any] = {A(META, "group"): None}
    b.update(type_binding("map"))
    b[A(META, "map_types")] = ("string", "enum")
    assume = {inc: True, ("op", "is", VALUE, C(None)): False, ("raises", ("AttributeError",), VALUE): False}
    paths = interp_for(mod, bindings=b, assume=assume, fork_ifexp=True, auto_inline=False).run(fn)
    ctx.count(len(paths))
    bad = None
    n = 0
    for p in paths:
        if p.outcome == "raise":
            continue
        # an enum value is neither a datetime / timedelta nor a message
        if any(k[0] == "call" and k[1] == N("isinstance") and len(k[2]) == 2 and show(k[2][1]) in ("datetime", "timedelta", "Message") and v for k, v in p.valuation.items()):
            continue
        if any(k[0] == "call" and k[1] == N("hasattr") and v for k, v in p.valuation.items()):
            continue
        for e in p.events:
            if e.kind == "store" and e.data[0][0] == "sub" and len(e.loops) >= 2 and e.data[0][1][0] in ("n", "dictd"):
                n += 1
                v = e.data[1]
                through = any(t_[0] == "call" and dotted(t_[1]).split(".")[-1] == "_enum_to_json" for t_ in walk(v))
                by_own_class = any(t_[0] == "call" and dotted(t_[1]).split(".")[-1] == "_enum_to_json" and t_[2] and t_[2][0][0] == "call" and dotted(t_[2][0][1]) == "type" for t_ in walk(v))
                decided_instance = any(k[0] == "call" and k[1] == N("isinstance") and len(k[2]) == 2 and show(k[2][1]).split(".")[-1] in ("Enum", "IntEnum") for k in p.valuation)
                if not through or by_own_class or decided_instance:
                    bad = bad or (p, v, decided_instance)
    name = "to_dict[map-value:enum]:whatever-the-representation"
    if bad:
        p, v, inst = bad
        ctx.refuted(rule, name, show(v)[:60], mod.loc(fn), f"on {val_text(p.valuation)[-200:]} a value of an enum-valued map is stored as {show(v)[:80]}"
                    + (": how it is rendered depends on whether the value is an Enum instance" if inst else ": not through _enum_to_json with the declared class")
                    + " - under pydantic_dataclasses the values are plain ints and come out as numbers where the standard dataclasses emit names",
                    "pydantic_dataclasses: M(status_by_shop={'north': Status.OPEN}).to_json()")
    elif not n:
        # the entries are built some other way (a comprehension, a converter chosen once per field): the weaker, structural form -
        # nothing in to_dict (or the module-level helpers it calls) asks whether a value is an Enum instance
        scope_ = [fn] + [mod.func(c_.func.id) for c_ in ast.walk(fn) if isinstance(c_, ast.Call) and isinstance(c_.func, ast.Name) and mod.has(c_.func.id)
                         and isinstance(mod.defs[c_.func.id][0], ast.FunctionDef)]
        tests = [c_ for f_ in scope_ for c_ in ast.walk(f_) if isinstance(c_, ast.Call) and isinstance(c_.func, ast.Name) and c_.func.id == "isinstance" and len(c_.args) == 2
                 and any(isinstance(x, (ast.Name, ast.Attribute)) and ast.unparse(x).split(".")[-1] in ("Enum", "IntEnum") for x in ast.walk(c_.args[1]))]
        if tests:
            ctx.refuted(rule, name, ast.unparse(tests[0])[:60], mod.loc(tests[0]), f"`{ast.unparse(tests[0])}` makes the JSON form of an enum value depend on whether it is an Enum instance: the pydantic "
                        "dataclasses hold enum values as plain ints", "pydantic_dataclasses: M(status_by_shop={'north': Status.OPEN}).to_json()")
        else:
            ctx.proved(rule, name, mod.loc(fn), "no decision on the representation of an enum value (entries not built by item stores: structural form)")
    else:
        ctx.proved(rule, name, mod.loc(fn), f"{n} stores, each through _enum_to_json with the declared class")


def rule_J5(ctx) -> None:
    """JSON presence: what is set is emitted by to_dict whatever its value"""
    mod = ctx.repo.mod(M_INIT)
    fn = mod.func("Message.to_dict")
    inc = N(fn.args.args[2].arg)
    rep_atom = ("op", "is", ("sub", A(A(SELF, "_betterproto"), "default_gen"), FIELD_NAME), N("list"))
    base = {inc: False, ("raises", ("AttributeError",), VALUE): False, rep_atom: False, ("op", "is", VALUE, C(None)): False, INCL: False,
            CALL(N("isinstance"), VALUE, N("datetime")): False, CALL(N("isinstance"), VALUE, N("timedelta")): False}
    scenarios = [
        ("wrapper set to the wrapped default (falsy value)", "message", {A(META, "wraps"): "int32"}, {VALUE: False}),
        ("sub-message present but empty", "message", {A(META, "wraps"): None}, {A(VALUE, "_serialized_on_wire"): True, VALUE: False}),
        ("optional scalar set to its default", "int32", {A(META, "optional"): True}, {VALUE: False}),
        ("optional string set to ''", "string", {A(META, "optional"): True}, {VALUE: False}),
        # a lazily created child that was filled in place (list.append / dict update bypass __setattr__): the wire carries it
        # because it differs from the default, so JSON must too
        ("sub-message with content whose presence flag was never set", "message", {A(META, "wraps"): None, A(META, "optional"): False, A(META, "group"): None},
         {A(VALUE, "_serialized_on_wire"): False, VALUE: True, CALL(N("bool"), VALUE): True}),
        # optional message-typed members: the wire carries them (dump emits every optional that is not None), so JSON must too
        ("optional sub-message set to an empty message", "message", {A(META, "wraps"): None, A(META, "optional"): True, A(META, "group"): None},
         {A(VALUE, "_serialized_on_wire"): False, VALUE: False}),
        ("optional Timestamp set to the epoch", "message", {A(META, "wraps"): None, A(META, "optional"): True, A(META, "group"): None},
         {CALL(N("isinstance"), VALUE, N("datetime")): True, "$zero": "DATETIME_ZERO"}),
        ("optional Duration set to zero", "message", {A(META, "wraps"): None, A(META, "optional"): True, A(META, "group"): None},
         {CALL(N("isinstance"), VALUE, N("timedelta")): True, "$zero": "timedelta(0)"}),
    ]
    # selected oneof members at their default value: the wire carries them (dump emits the selected member whatever it holds)
    eqdef = ("op", "==", VALUE, CALL(A(SELF, "_get_field_default"), FIELD_NAME))
    sel = {A(META, "wraps"): None, A(META, "optional"): False, A(META, "group"): "g"}
    scenarios += [
        ("oneof Timestamp member selected at the epoch", "message", dict(sel), {INCL: True, CALL(N("isinstance"), VALUE, N("datetime")): True, "$zero": "DATETIME_ZERO", "$selected": True}),
        ("oneof Duration member selected at zero", "message", dict(sel), {INCL: True, CALL(N("isinstance"), VALUE, N("timedelta")): True, "$zero": "timedelta(0)", "$selected": True}),
        ("oneof enum member selected at 0", "enum", dict(sel), {INCL: True, VALUE: False, eqdef: True, "$selected": True}),
        ("oneof int32 member selected at 0", "int32", dict(sel), {INCL: True, VALUE: False, eqdef: True, "$selected": True}),
        ("oneof string member selected at ''", "string", dict(sel), {INCL: True, VALUE: False, eqdef: True, "$selected": True}),
        ("oneof bool member selected at false", "bool", dict(sel), {INCL: True, VALUE: False, eqdef: True, "$selected": True}),
        ("oneof sub-message member selected, empty", "message", dict(sel), {INCL: True, VALUE: False, A(VALUE, "_serialized_on_wire"): False, eqdef: True, "$selected": True}),
    ]
    for sname, t, binds, atoms in scenarios:
        b = dict(type_binding(t))
        b.update(binds)
        # the scenarios are about fields outside any oneof (INCL is assumed False, and a set member would be the selected one)
        b.setdefault(A(META, "group"), None)
        assume = dict(base)
        atoms = dict(atoms)
        zero = atoms.pop("$zero", None)
        selected = atoms.pop("$selected", False)
        assume.update(atoms)
        paths = interp_for(mod, bindings=b, assume=assume, inline=_small_helpers(mod, fn, ENC_CLASSES)).run(fn)
        ctx.count(len(paths))
        if zero is not None:
            # keep the paths on which the value was found equal to the zero value (x != ZERO false / x == ZERO true)
            def at_zero(p):
                for k, v in p.valuation.items():
                    if k[0] == "op" and k[1] in ("==", "!=") and zero in show(k):
                        if v != (k[1] == "=="):
                            return False
                return True
            paths = [p for p in paths if at_zero(p)]
        missing = [p for p in paths if p.outcome != "raise" and not any(
            e.kind == "store" and e.data[0][0] == "sub" and e.data[0][1][0] in ("dictd", "n") and e.loops for e in p.events)]
        # the value differs from the field default (None) in these scenarios
        if not selected:
            missing = [p for p in missing if p.valuation.get(("op", "==", VALUE, CALL(A(SELF, "_get_field_default"), FIELD_NAME))) is not True]
        name = f"to_dict:{sname}"
        if missing:
            ctx.refuted("J5", name, val_text(missing[0].valuation)[:100], mod.loc(fn),
                        f"to_dict drops a field in the state '{sname}' (path {val_text(missing[0].valuation)}): presence is lost on the JSON round trip and the reference parser sees the field as unset",
                        "M(wrapped=0).to_dict() / from_dict round trip")
        else:
            ctx.proved("J5", name, mod.loc(fn), f"{len(paths)} paths")


def rule_J6b(ctx, rule: str = "J6") -> None:
    """map keys on the way out: json.dumps writes Python keys in their canonical JSON spelling (1 -> "1", True -> "true");
    a key that to_dict converts itself must keep that spelling - str(True) is 'True' """
    mod = ctx.repo.mod(M_INIT)
    fn = mod.func("Message.to_dict")
    inc = N(fn.args.args[2].arg)
    rep_atom = ("op", "is", ("sub", A(A(SELF, "_betterproto"), "default_gen"), FIELD_NAME), N("list"))
    for kt in ("bool", "int32", "string"):
        b = dict(type_binding("map"))
        b[A(META, "map_types")] = (kt, "string")
        assume = {inc: False, rep_atom: False, ("op", "is", VALUE, C(None)): False, ("raises", ("AttributeError",), VALUE): False}
        paths = interp_for(mod, bindings=b, assume=assume, inline=_small_helpers(mod, fn, ENC_CLASSES), fork_ifexp=True).run(fn)
        ctx.count(len(paths))
        keys = set()
        n = 0
        for p in paths:
            if p.outcome == "raise" or _decides_wellknown(p.valuation):
                continue
            # a bool key is not a str: paths that decided otherwise are infeasible for this key kind
            if kt != "string" and any(v for k, v in p.valuation.items() if k[0] == "call" and k[1] == N("isinstance") and len(k[2]) == 2 and k[2][1] == N("str") and "items()" in show(k[2][0])):
                continue
            key_terms = []
            for e in p.events:
                if e.kind == "store" and e.data[0][0] == "sub" and e.loops and len(e.loops) >= 2:
                    key_terms.append(e.data[0][2])
                elif e.kind == "store" and e.data[0][0] == "sub" and e.loops:
                    # the map built by a dict comprehension and stored as a whole
                    key_terms += _key_exprs(e.data[1])
            for k in key_terms:
                n += 1
                if any(dotted(c[1]) in ("str", "repr", "format") for c in calls(k)) or k[0] == "fstr":
                    keys.add("str")
                elif any(t[0] == "c" and t[1] in ("true", "false") for t in walk(k)) or any(dotted(c[1]).endswith("dumps") for c in calls(k)):
                    keys.add("json")
                else:
                    keys.add("identity")
        name = f"to_dict[map-key:{kt}]"
        if not n:
            ctx.inconclusive(rule, name, "no store into a map output found", mod.loc(fn))
        elif kt == "bool" and "str" in keys:
            ctx.refuted(rule, name, "str(bool)", mod.loc(fn),
                        "to_dict turns map keys into text with str(): for a map<bool, ...> that is \"True\"/\"False\", which neither the reference parser nor from_dict "
                        "(which compares with \"true\") reads back as the key that was written", "M(flags={True: 'x'}).to_json()")
        else:
            ctx.proved(rule, name, mod.loc(fn), ",".join(sorted(keys)))


# ---------------------------------------------------------------------------
# K4 / K5: the names used in JSON are the schema's names (information-flow argument)


def rule_K4(ctx, rule: str = "K4") -> None:
    """JSON object keys: protoc's json_name keeps the letter case and the word boundaries of the proto field name.  The key
    betterproto emits must therefore be computed from something that still determines the proto name."""
    from .c19 import _norm_key_expr
    mod = ctx.repo.mod(M_INIT)
    fn = mod.func("Message.to_dict")
    cas = ctx.repo.mod(M_CASING)
    # what the emitted key depends on (same extraction as I3)
    casing_param = fn.args.args[1].arg
    loop = next((n for n in ast.walk(fn) if isinstance(n, ast.For) and "meta_by_field_name" in ast.unparse(n.iter)), None)
    if loop is None or not isinstance(loop.target, ast.Tuple):
        ctx.inconclusive(rule, "to_dict:json-key-source", "field loop not recognised", mod.loc(fn))
        return
    fname, meta = loop.target.elts[0].id, loop.target.elts[1].id
    key_deps: Set[str] = set()
    for n in ast.walk(loop):
        if isinstance(n, ast.Assign) and len(n.targets) == 1 and isinstance(n.targets[0], ast.Name) and n.targets[0].id == "cased_name":
            key_deps = {x.id for x in ast.walk(n.value) if isinstance(x, ast.Name)} | {ast.unparse(x) for x in ast.walk(n.value) if isinstance(x, ast.Attribute)}
    if not key_deps:
        # the key may be applied when the collected values are re-keyed in the return value: {E(f): v for f, v in output.items()}
        for r in [r.value for r in ast.walk(fn) if isinstance(r, ast.Return) and isinstance(r.value, ast.DictComp)]:
            key_deps |= {x.id for x in ast.walk(r.key) if isinstance(x, ast.Name)} | {ast.unparse(x) for x in ast.walk(r.key) if isinstance(x, ast.Attribute)}
    if not key_deps:
        ctx.inconclusive(rule, "to_dict:json-key-source", "key expression not recognised", mod.loc(fn))
        return
    uses_meta_name = any(d.startswith(meta + ".") and "name" in d for d in key_deps)
    # the Python field name is derived from the proto name by a case-folding function
    ssc = cas.func("snake_case")
    folds = any(isinstance(n, ast.Call) and isinstance(n.func, ast.Attribute) and n.func.attr in ("lower", "casefold") for n in ast.walk(ssc))
    fm = mod.cls("FieldMetadata")
    meta_fields = [st.target.id for st in fm.body if isinstance(st, ast.AnnAssign) and isinstance(st.target, ast.Name)]
    carries_name = [f for f in meta_fields if "name" in f]
    ctx.analysed("Message.to_dict", "FieldMetadata", "casing.snake_case")
    if uses_meta_name and carries_name:
        ctx.proved(rule, "to_dict:json-key-source", mod.loc(fn), f"key read from field metadata {carries_name}")
    elif not folds:
        ctx.proved(rule, "to_dict:json-key-source", mod.loc(fn), "the Python field name keeps the letters of the proto name")
    else:
        ctx.refuted(rule, "to_dict:json-key-source", "python-name-only", mod.loc(fn),
                    f"the JSON key is computed from the Python attribute name alone ({sorted(key_deps)}); that name is the lower-cased, re-split form of the proto name "
                    f"(snake_case folds case and splits at digit/letter boundaries) and the field metadata {meta_fields} keeps neither the proto name nor protoc's json_name. "
                    "For proto names that are not already lower_snake_case with letter-only words the emitted key differs from the canonical JSON name and is rejected by the "
                    "reference parser: UPPER_SNAKE -> 'upperSnake' (canonical 'UPPERSNAKE'), sha256sum -> 'sha256Sum' (canonical 'sha256sum'), Foo -> 'foo' (canonical 'Foo')",
                    "json_format.Parse(M(sha256sum='x').to_json(), Ref()) -> ParseError: no field named sha256Sum")


def rule_K5(ctx, rule: str = "K5") -> None:
    """enum values in JSON are the schema's value names: the generated member name must be the proto name, or the proto
    name must be kept next to it"""
    from ..src import M_NAMING, T_BODY
    nam = ctx.repo.mod(M_NAMING)
    fn = nam.func("pythonize_enum_member_name")
    name = N(fn.args.args[0].arg)
    paths = Interp(nam).run(fn)
    ctx.count(len(paths))
    shortening = 0
    for p in paths:
        if p.outcome == "return" and p.value is not None and any(t[0] in ("slice", "sub") and t[1] == name for t in walk(p.value)):
            shortening += 1
    tm_text = (ctx.repo.root / T_BODY).read_text()
    # does the template emit anything but NAME = number for enum entries (e.g. a proto-name table)?
    enum_block = tm_text[tm_text.index("for enum in output_file.enums"):tm_text.index("for message in output_file.messages")] if "for enum in output_file.enums" in tm_text else ""
    keeps_proto_name = "proto_name" in enum_block or "original" in enum_block
    ctx.analysed("pythonize_enum_member_name", "templates/template.py.j2 (enum block)")
    if shortening == 0:
        ctx.proved(rule, "enum-json-name:proto-value-name", nam.loc(fn), "member names are the proto value names (sanitised only)")
    elif keeps_proto_name:
        ctx.proved(rule, "enum-json-name:proto-value-name", nam.loc(fn), "the proto value name is emitted next to the member")
    else:
        ctx.refuted(rule, "enum-json-name:proto-value-name", "prefix-stripped-member-name", nam.loc(fn),
                    f"generated enum members drop the ENUM_NAME_ prefix of the proto value name ({shortening} shortening paths) and nothing else of the proto name is emitted; to_dict writes "
                    "member.name and from_dict reads it with from_string(member name), so for the style-guide naming (enum Foo { FOO_BAR = 1; }) betterproto emits \"BAR\" where the "
                    "canonical JSON is \"FOO_BAR\", and rejects the reference's \"FOO_BAR\"",
                    "enum Color { COLOR_RED = 1; }: M(c=Color.RED).to_json() == '{\"c\": \"RED\"}'; M().from_json('{\"c\": \"COLOR_RED\"}') raises ValueError")


# ---------------------------------------------------------------------------
# J7 containers keep their order / J8 the name of an enum value is used only when it has one


def rule_J7(ctx, rule: str = "J7") -> None:
    """the dict / JSON form lists the entries of a map and the items of a repeated field in the container's own order, and the
    reader rebuilds them in the order read: a `sorted(...)` / `reversed(...)` / set around the container reorders the entries, the
    rebuilt map compares equal but encodes to other bytes (map entries are written in dict order)"""
    mod = ctx.repo.mod(M_INIT)
    n = 0
    bad = None
    for q in ("Message.to_dict", "Message._from_dict_init", "Message.to_pydict", "Message.from_pydict"):
        fn = mod.func(q)
        ctx.analysed(q)
        its = [x.iter for x in ast.walk(fn) if isinstance(x, (ast.For, ast.comprehension))]
        for it in its:
            n += 1
            for c in ast.walk(it):
                if isinstance(c, ast.Call) and isinstance(c.func, ast.Name) and c.func.id in ("sorted", "reversed", "set", "frozenset") and c.args:
                    inner = ast.unparse(c.args[0])
                    # reordering the fields of the class (metadata tables) is harmless; reordering a field's value is not
                    if "meta_by_field_name" in inner or "_betterproto" in inner or "dataclasses.fields" in inner:
                        continue
                    bad = bad or (q, c)
    ctx.count(n)
    if bad:
        q, c = bad
        ctx.refuted(rule, "containers-keep-their-order", f"{q}:{ast.unparse(c)[:60]}", mod.loc(c),
                    f"{q} iterates `{ast.unparse(c)[:90]}`: the entries of the value come out in another order than the container holds them, so the message rebuilt from the dict / JSON form "
                    "has its map (or list) in that other order - equal as a dict, but encoded to different bytes", "a map filled in the order pear, apple, fig")
    else:
        ctx.proved(rule, "containers-keep-their-order", M_INIT, f"{n} loops / comprehensions over values in the four converters, none reorders its container")


def rule_J8(ctx, rule: str = "J8") -> None:
    """_enum_to_json is total over open enums: it returns a name only on a path that found the name present (a number without
    a member is an instance of the enum class too - try_value makes one whose name is None), otherwise the number"""
    mod = ctx.repo.mod(M_INIT)
    if not mod.has("_enum_to_json"):
        ctx.inconclusive(rule, "_enum_to_json:name-only-when-present", "_enum_to_json not found", M_INIT)
        return
    fn = mod.func("_enum_to_json")
    ctx.analysed("_enum_to_json")
    paths = Interp(mod, fork_ifexp=True).run(fn)
    ctx.count(len(paths))
    bad = None
    n = 0
    for p in paths:
        if p.outcome != "return" or p.value is None:
            continue
        n += 1
        v = p.value
        if v[0] == "a" and v[2] == "name":
            checked = any((k == ("op", "is", v, C(None)) and not val) or (k == v and val) for k, val in p.valuation.items())
            base = v[1]
            # a member taken out of the class's table of defined members (and found there) has a name
            from_table = (base[0] == "call" and base[1][0] == "a" and base[1][2] == "get" and show(base[1][1]).split(".")[-1] in ("_value_map_", "_member_map_")) or \
                         (base[0] == "sub" and show(base[1]).split(".")[-1] in ("_value_map_", "_member_map_"))
            if from_table and (base[0] == "sub" or any((k == ("op", "is", base, C(None)) and not val) or (k == base and val) for k, val in p.valuation.items())):
                checked = True
            if not checked:
                bad = bad or (p, v)
    if bad:
        p, v = bad
        ctx.refuted(rule, "_enum_to_json:name-only-when-present", show(v), mod.loc(fn),
                    f"_enum_to_json returns {show(v)} on the path {{{', '.join(show(k) + '=' + str(val) for k, val in p.valuation.items())}}} without having found it present: a number the enum "
                    "does not define is held as a member-like instance whose name is None (that is how it arrives from the wire), and is emitted as JSON null instead of the number",
                    "M().parse(<enum field = 7, undefined>).to_json()")
    elif not n:
        ctx.inconclusive(rule, "_enum_to_json:name-only-when-present", "no returning path", mod.loc(fn))
    else:
        ctx.proved(rule, "_enum_to_json:name-only-when-present", mod.loc(fn), f"{n} returning paths")
