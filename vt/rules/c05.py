"""C05 - canonical proto3 JSON mapping (K1-K3 + J1)."""
from . import jsonrules
from .c15 import rule_Q4, rule_Q2

PROP = "C05"
TECHNIQUE = "constant/table conformance against the reference's json_format source text; transform-class table vs the proto3 JSON mapping; float-taint lint on the emitters"
EXPLANATION = (
    "Static conformance of the JSON mapping: the special float names, the set of 64-bit kinds, the base64 alphabet, the Duration "
    "suffix and the default key casing are extracted from the source and compared with the proto3 JSON mapping and with constants read "
    "from google/protobuf/json_format.py (source text, never imported); the per-(type, shape) transform table of to_dict (J1) is judged "
    "against the spec; a float-taint analysis shows that no float reaches repr-style formatting in the canonical emitters. Acceptance "
    "by the reference parser for all values is not decided."
)
RULE_TEXT = "obligation = (rule, constant / default / (shape, type)); evaluations = abstract paths + table entries; non-trivial = distinct entries"


def run(ctx) -> None:
    ctx.rules_run += ["K1", "K2", "K3", "J1", "Q4", "Q2", "J4", "J5", "J6"]
    rule_Q4(ctx)
    rule_Q2(ctx)      # the JSON emitters must not push wide integers through float
    jsonrules.rule_J4(ctx)
    jsonrules.rule_J5(ctx)
    jsonrules.rule_K1(ctx)
    jsonrules.rule_K2(ctx)
    jsonrules.rule_K3(ctx)
    ctx.rules_run.append("K3b")
    jsonrules.rule_K3b(ctx)     # the Timestamp text at distinguished microsecond values: 0 / 3 / 6 zero-padded digits
    ctx.rules_run.append("K3c")
    jsonrules.rule_K3c(ctx)     # ... and at aware datetimes with non-zero UTC offsets: the text denotes the same instant
    jsonrules.rule_J1(ctx)
    jsonrules.rule_J6(ctx)
    from .c19 import rule_K6
    ctx.rules_run.append("K6")
    rule_K6(ctx)                # camelCase keys: only the first character is lower-cased
    ctx.rules_run += ["J8"]
    jsonrules.rule_J8(ctx)      # an enum number without a member is emitted as the number (the reference reads null as 0)
    from .c15 import rule_Q7
    ctx.rules_run.append("Q7")
    rule_Q7(ctx)                # RFC 3339 text: four-digit year over the whole valid range
    ctx.rules_run.append("J2")
    jsonrules.rule_J2(ctx)      # the canonical forms of the reference (64-bit integers as text, base64, float specials) are taken back by from_dict
    from . import presence
    ctx.rules_run.append("J3")
    presence.rule_D4(ctx, "J3")     # an object read from reference JSON is present, empty or not
    ctx.rules_run += ["K4", "K5"]
    jsonrules.rule_K4(ctx)
    jsonrules.rule_K5(ctx)
    from .c19 import rule_I3
    ctx.rules_run.append("I3")
    rule_I3(ctx)            # emitted keys are found again by from_dict (key table)   # reference JSON always has text keys
