"""C04 - JSON / dict round trip (J1-J3)."""
from . import jsonrules, presence
from .c15 import rule_Q4

PROP = "C04"
TECHNIQUE = "E2 specialisation of to_dict and _from_dict_init over (type x container shape); transform-class extraction on the data path; inverse catalogue"
EXPLANATION = (
    "Static dispatch agreement of the JSON codec: to_dict and _from_dict_init are specialised for each proto type in each container "
    "shape (singular, repeated, map value, wrapper); the transform class on the data path (str / base64 / enum name / special floats / "
    "recursive / Timestamp / Duration / identity) is extracted and (J1) compared with the proto3 JSON mapping, (J2) paired with the "
    "inverse class on the decoding side; (J3) both from_dict forms and from_json are shown to share one decoder and to set presence. "
    "Key-casing retraction and float text round trips are not decided."
)
RULE_TEXT = "obligation = (rule, shape, type); evaluations = abstract paths; non-trivial = distinct (shape, type) pairs reaching a store"


def run(ctx) -> None:
    ctx.rules_run += ["J1", "J2", "J3", "Q4", "J4", "J5", "J6"]
    rule_Q4(ctx)
    jsonrules.rule_J4(ctx)
    jsonrules.rule_J5(ctx)     # Duration text: emitter and parser agree on the sign of the fraction
    jsonrules.rule_J1(ctx)
    jsonrules.rule_J2(ctx)
    jsonrules.rule_J6(ctx)
    ctx.rules_run.append("K1")
    jsonrules.rule_K1(ctx)      # what _dump_float emits reads back as the same number: specials, both zeros, whole numbers, float32 values
    ctx.rules_run.append("J9")
    jsonrules.rule_J9(ctx)      # numbers found for enum fields stay open (no closed EnumClass(number))
    ctx.rules_run += ["J7", "J8"]
    jsonrules.rule_J7(ctx)      # the rebuilt message encodes to the same bytes only if containers keep their order
    jsonrules.rule_J8(ctx)
    from .c15 import rule_Q7
    ctx.rules_run.append("Q7")
    rule_Q7(ctx)                # RFC 3339 text: four-digit year over the whole valid range
    from .c19 import rule_I3
    ctx.rules_run.append("I3")
    rule_I3(ctx)            # emitted keys are found again by from_dict (key table)
    presence.rule_D4(ctx, "J3")
